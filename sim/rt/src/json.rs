//! Minimal JSON (ordered objects, i128 integers) — enough for journals, replay
//! files and evidence fragments; no dependency so every build gets the same bytes.

use std::fmt::Write as _;

#[derive(Clone, Debug, PartialEq)]
pub enum J {
    Null,
    Bool(bool),
    Int(i128),
    F(f64),
    Str(String),
    Arr(Vec<J>),
    Obj(Vec<(String, J)>),
}

impl J {
    pub fn obj() -> J {
        J::Obj(Vec::new())
    }
    pub fn set(mut self, k: &str, v: impl Into<J>) -> J {
        if let J::Obj(ref mut o) = self {
            o.push((k.to_string(), v.into()));
        }
        self
    }
    pub fn put(&mut self, k: &str, v: impl Into<J>) {
        if let J::Obj(ref mut o) = self {
            let v = v.into();
            for e in o.iter_mut() {
                if e.0 == k {
                    e.1 = v;
                    return;
                }
            }
            o.push((k.to_string(), v));
        }
    }
    pub fn get(&self, k: &str) -> Option<&J> {
        match self {
            J::Obj(o) => o.iter().find(|e| e.0 == k).map(|e| &e.1),
            _ => None,
        }
    }
    pub fn str(&self, k: &str) -> Option<&str> {
        match self.get(k) {
            Some(J::Str(s)) => Some(s),
            _ => None,
        }
    }
    pub fn int(&self, k: &str) -> Option<i128> {
        match self.get(k) {
            Some(J::Int(i)) => Some(*i),
            Some(J::Bool(b)) => Some(*b as i128),
            _ => None,
        }
    }
    pub fn us(&self, k: &str) -> usize {
        self.int(k).map(|v| v as usize).unwrap_or(0)
    }
    pub fn u64(&self, k: &str) -> u64 {
        self.int(k).map(|v| v as u64).unwrap_or(0)
    }
    pub fn boolean(&self, k: &str) -> bool {
        match self.get(k) {
            Some(J::Bool(b)) => *b,
            Some(J::Int(i)) => *i != 0,
            _ => false,
        }
    }
    pub fn arr(&self, k: &str) -> &[J] {
        match self.get(k) {
            Some(J::Arr(a)) => a,
            _ => &[],
        }
    }
    pub fn as_arr(&self) -> &[J] {
        match self {
            J::Arr(a) => a,
            _ => &[],
        }
    }
    pub fn as_int(&self) -> i128 {
        match self {
            J::Int(i) => *i,
            _ => 0,
        }
    }

    pub fn dump(&self) -> String {
        let mut s = String::new();
        self.write(&mut s);
        s
    }
    fn write(&self, out: &mut String) {
        match self {
            J::Null => out.push_str("null"),
            J::Bool(b) => out.push_str(if *b { "true" } else { "false" }),
            J::Int(i) => {
                let _ = write!(out, "{}", i);
            }
            J::F(f) => {
                if f.is_finite() {
                    let _ = write!(out, "{:?}", f);
                } else {
                    out.push_str("null");
                }
            }
            J::Str(s) => esc(s, out),
            J::Arr(a) => {
                out.push('[');
                for (i, v) in a.iter().enumerate() {
                    if i > 0 {
                        out.push(',');
                    }
                    v.write(out);
                }
                out.push(']');
            }
            J::Obj(o) => {
                out.push('{');
                for (i, (k, v)) in o.iter().enumerate() {
                    if i > 0 {
                        out.push(',');
                    }
                    esc(k, out);
                    out.push(':');
                    v.write(out);
                }
                out.push('}');
            }
        }
    }

    pub fn parse(s: &str) -> Result<J, String> {
        let b = s.as_bytes();
        let mut p = 0usize;
        let v = parse_val(b, &mut p)?;
        ws(b, &mut p);
        if p != b.len() {
            return Err(format!("trailing data at {}", p));
        }
        Ok(v)
    }
}

fn esc(s: &str, out: &mut String) {
    out.push('"');
    for c in s.chars() {
        match c {
            '"' => out.push_str("\\\""),
            '\\' => out.push_str("\\\\"),
            '\n' => out.push_str("\\n"),
            '\r' => out.push_str("\\r"),
            '\t' => out.push_str("\\t"),
            c if (c as u32) < 0x20 => {
                let _ = write!(out, "\\u{:04x}", c as u32);
            }
            c => out.push(c),
        }
    }
    out.push('"');
}

fn ws(b: &[u8], p: &mut usize) {
    while *p < b.len() && matches!(b[*p], b' ' | b'\n' | b'\r' | b'\t') {
        *p += 1;
    }
}

fn parse_val(b: &[u8], p: &mut usize) -> Result<J, String> {
    ws(b, p);
    if *p >= b.len() {
        return Err("eof".into());
    }
    match b[*p] {
        b'n' => lit(b, p, "null", J::Null),
        b't' => lit(b, p, "true", J::Bool(true)),
        b'f' => lit(b, p, "false", J::Bool(false)),
        b'"' => Ok(J::Str(parse_str(b, p)?)),
        b'[' => {
            *p += 1;
            let mut a = Vec::new();
            ws(b, p);
            if *p < b.len() && b[*p] == b']' {
                *p += 1;
                return Ok(J::Arr(a));
            }
            loop {
                a.push(parse_val(b, p)?);
                ws(b, p);
                if *p >= b.len() {
                    return Err("eof in array".into());
                }
                match b[*p] {
                    b',' => *p += 1,
                    b']' => {
                        *p += 1;
                        return Ok(J::Arr(a));
                    }
                    c => return Err(format!("unexpected {:?} in array at {}", c as char, *p)),
                }
            }
        }
        b'{' => {
            *p += 1;
            let mut o = Vec::new();
            ws(b, p);
            if *p < b.len() && b[*p] == b'}' {
                *p += 1;
                return Ok(J::Obj(o));
            }
            loop {
                ws(b, p);
                let k = parse_str(b, p)?;
                ws(b, p);
                if *p >= b.len() || b[*p] != b':' {
                    return Err(format!("expected ':' at {}", *p));
                }
                *p += 1;
                let v = parse_val(b, p)?;
                o.push((k, v));
                ws(b, p);
                if *p >= b.len() {
                    return Err("eof in object".into());
                }
                match b[*p] {
                    b',' => *p += 1,
                    b'}' => {
                        *p += 1;
                        return Ok(J::Obj(o));
                    }
                    c => return Err(format!("unexpected {:?} in object at {}", c as char, *p)),
                }
            }
        }
        _ => {
            let st = *p;
            let mut is_f = false;
            while *p < b.len() && matches!(b[*p], b'0'..=b'9' | b'-' | b'+' | b'.' | b'e' | b'E') {
                if matches!(b[*p], b'.' | b'e' | b'E') {
                    is_f = true;
                }
                *p += 1;
            }
            let t = std::str::from_utf8(&b[st..*p]).map_err(|e| e.to_string())?;
            if t.is_empty() {
                return Err(format!("unexpected byte at {}", st));
            }
            if is_f {
                t.parse::<f64>().map(J::F).map_err(|e| e.to_string())
            } else {
                t.parse::<i128>().map(J::Int).map_err(|e| e.to_string())
            }
        }
    }
}

fn lit(b: &[u8], p: &mut usize, w: &str, v: J) -> Result<J, String> {
    if b[*p..].starts_with(w.as_bytes()) {
        *p += w.len();
        Ok(v)
    } else {
        Err(format!("bad literal at {}", *p))
    }
}

fn parse_str(b: &[u8], p: &mut usize) -> Result<String, String> {
    if *p >= b.len() || b[*p] != b'"' {
        return Err(format!("expected string at {}", *p));
    }
    *p += 1;
    let mut out: Vec<u8> = Vec::new();
    while *p < b.len() {
        let c = b[*p];
        *p += 1;
        match c {
            b'"' => return String::from_utf8(out).map_err(|e| e.to_string()),
            b'\\' => {
                if *p >= b.len() {
                    break;
                }
                let e = b[*p];
                *p += 1;
                match e {
                    b'n' => out.push(b'\n'),
                    b'r' => out.push(b'\r'),
                    b't' => out.push(b'\t'),
                    b'b' => out.push(8),
                    b'f' => out.push(12),
                    b'u' => {
                        if *p + 4 > b.len() {
                            break;
                        }
                        let h = std::str::from_utf8(&b[*p..*p + 4]).map_err(|e| e.to_string())?;
                        let cp = u32::from_str_radix(h, 16).map_err(|e| e.to_string())?;
                        *p += 4;
                        let ch = char::from_u32(cp).unwrap_or('?');
                        let mut buf = [0u8; 4];
                        out.extend_from_slice(ch.encode_utf8(&mut buf).as_bytes());
                    }
                    other => out.push(other),
                }
            }
            c => out.push(c),
        }
    }
    Err("eof in string".into())
}

impl From<bool> for J {
    fn from(v: bool) -> J {
        J::Bool(v)
    }
}
impl From<usize> for J {
    fn from(v: usize) -> J {
        J::Int(v as i128)
    }
}
impl From<u64> for J {
    fn from(v: u64) -> J {
        J::Int(v as i128)
    }
}
impl From<u32> for J {
    fn from(v: u32) -> J {
        J::Int(v as i128)
    }
}
impl From<u8> for J {
    fn from(v: u8) -> J {
        J::Int(v as i128)
    }
}
impl From<i64> for J {
    fn from(v: i64) -> J {
        J::Int(v as i128)
    }
}
impl From<i128> for J {
    fn from(v: i128) -> J {
        J::Int(v)
    }
}
impl From<u128> for J {
    fn from(v: u128) -> J {
        // u128 values above i128::MAX are stored as strings by callers; not needed here
        J::Int(v as i128)
    }
}
impl From<f64> for J {
    fn from(v: f64) -> J {
        J::F(v)
    }
}
impl From<&str> for J {
    fn from(v: &str) -> J {
        J::Str(v.to_string())
    }
}
impl From<String> for J {
    fn from(v: String) -> J {
        J::Str(v)
    }
}
impl From<Vec<J>> for J {
    fn from(v: Vec<J>) -> J {
        J::Arr(v)
    }
}

#[cfg(test)]
mod tests {
    use super::*;
    #[test]
    fn roundtrip() {
        let j = J::obj()
            .set("a", 18446744073709551615usize)
            .set("s", "x\"y\n")
            .set("l", vec![J::Int(1), J::Null, J::Bool(true)]);
        let s = j.dump();
        assert_eq!(J::parse(&s).unwrap(), j);
    }
}
