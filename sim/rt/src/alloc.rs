//! SimAlloc — the simulator-owned global allocator.
//!
//! Allocations made while the TRACK flag is on are *tracked*: placed between red
//! zones at an address whose parity the simulator chooses, filled with 0xA5,
//! entered in a ledger; on free they are checked (known, live, same layout,
//! canaries intact), poisoned with 0xDD and quarantined (no address reuse inside a
//! run). Everything else goes straight to `System`. `dealloc`/`realloc` always
//! look the pointer up first, so ownership may cross the TRACK boundary both ways.
//!
//! Decisions (parity in mixed mode, slack, realloc move/in-place) are a pure
//! function of (alloc seed, current op uid, k-th allocator call inside that op),
//! so they survive deletion of other steps during minimisation.

use std::alloc::{GlobalAlloc, Layout, System};
use std::cell::{Cell, UnsafeCell};
use std::collections::BTreeMap;
use std::sync::atomic::{AtomicBool, AtomicUsize, Ordering};

use crate::rng::mix;

pub const ENABLED: bool = true;
pub const RZ: usize = 32;
pub const CANARY: u8 = 0xCB;
pub const POISON: u8 = 0xDD;
pub const FRESH: u8 = 0xA5;
/// Requests above this are refused (null) — generated arguments stay below.
pub const MAX_REQ: usize = 1 << 30;

#[cfg(feature = "asan")]
extern "C" {
    fn __asan_poison_memory_region(addr: *const u8, size: usize);
    fn __asan_unpoison_memory_region(addr: *const u8, size: usize);
}
#[inline]
#[allow(unused_variables)]
unsafe fn asan_poison(addr: usize, size: usize) {
    #[cfg(feature = "asan")]
    if size > 0 {
        __asan_poison_memory_region(addr as *const u8, size);
    }
}
#[inline]
#[allow(unused_variables)]
unsafe fn asan_unpoison(addr: usize, size: usize) {
    #[cfg(feature = "asan")]
    if size > 0 {
        __asan_unpoison_memory_region(addr as *const u8, size);
    }
}

thread_local! {
    static TRACK: Cell<bool> = const { Cell::new(false) };
    static IN_HOOK: Cell<bool> = const { Cell::new(false) };
}

#[derive(Clone, Copy, Debug, PartialEq, Eq)]
pub enum Parity {
    Even,
    Odd,
    Mixed,
    /// byte buffers are bump-allocated back to back in an arena: no red zone between
    /// neighbours (the ledger still knows the exact blocks), address parity follows from
    /// the sizes. This is the "what neighbours a block" choice of the environment.
    Packed,
}

const ARENA: usize = 256 << 10;
const ARENA_PAD: usize = 64;
#[derive(Clone, Copy, Debug, PartialEq, Eq)]
pub enum ReallocMode {
    Move,
    InPlace,
    Mixed,
}

#[derive(Clone, Copy, Debug)]
pub struct AllocCfg {
    pub parity: Parity,
    pub realloc: ReallocMode,
    pub seed: u64,
    /// bytes of freed memory kept poisoned before the oldest is really released
    pub quarantine_cap: usize,
}
impl Default for AllocCfg {
    fn default() -> Self {
        AllocCfg { parity: Parity::Even, realloc: ReallocMode::Move, seed: 0, quarantine_cap: 256 << 20 }
    }
}

#[derive(Clone, Copy, Debug, PartialEq, Eq)]
pub enum EvKind {
    Alloc,
    Dealloc,
    ReallocMove,
    ReallocInPlace,
}
#[derive(Clone, Copy, Debug)]
pub struct Event {
    pub kind: EvKind,
    pub align: usize,
    pub size: usize,
    pub id: u32,
}

#[derive(Clone, Copy, Debug)]
pub struct BlockInfo {
    pub id: u32,
    pub user: usize,
    pub size: usize,
    pub align: usize,
    pub live: bool,
    pub born_op: u64,
}

struct Block {
    id: u32,
    user: usize,
    size: usize,
    align: usize,
    raw: usize,
    raw_size: usize,
    raw_align: usize,
    front: usize, // bytes between raw and user (all canary)
    live: bool,
    born_op: u64,
}

#[derive(Clone, Copy, Debug, Default)]
pub struct Stats {
    pub live_bytes: usize,
    pub peak_live_bytes: usize,
    pub live_blocks: usize,
    pub allocs: u64,
    pub align1_allocs: u64,
    pub deallocs: u64,
    pub realloc_moves: u64,
    pub realloc_inplace: u64,
    pub even_placements: u64,
    pub odd_placements: u64,
}

struct State {
    cfg: AllocCfg,
    blocks: BTreeMap<usize, Block>,
    events: Vec<Event>,
    violations: Vec<String>,
    next_id: u32,
    op_uid: u64,
    op_k: u64,
    stats: Stats,
    quarantine: std::collections::VecDeque<usize>,
    quarantine_bytes: usize,
    record_events: bool,
    /// (base, used) of the arenas of packed mode
    arenas: Vec<(usize, usize)>,
}

struct Global {
    lock: AtomicBool,
    st: UnsafeCell<Option<State>>,
}
unsafe impl Sync for Global {}
static G: Global = Global { lock: AtomicBool::new(false), st: UnsafeCell::new(None) };

/// Optional hook called *after* a tracked allocation has been made (outside the allocator's
/// own critical section): E-sched turns tracked allocations into scheduling points, because
/// a real allocator call is a place where a thread can be delayed arbitrarily long.
static ALLOC_HOOK: AtomicUsize = AtomicUsize::new(0);
pub fn set_alloc_hook(f: Option<fn()>) {
    ALLOC_HOOK.store(f.map(|f| f as usize).unwrap_or(0), Ordering::SeqCst);
}
#[inline]
fn run_alloc_hook() {
    let h = ALLOC_HOOK.load(Ordering::Relaxed);
    if h != 0 && !std::thread::panicking() {
        let f: fn() = unsafe { std::mem::transmute(h) };
        f();
    }
}

/// Optional observer called (inside the hook) when a tracked block has been allocated.
static ALLOC_OBSERVER: AtomicUsize = AtomicUsize::new(0);
pub fn set_alloc_observer(f: Option<fn(BlockInfo)>) {
    ALLOC_OBSERVER.store(f.map(|f| f as usize).unwrap_or(0), Ordering::SeqCst);
}

/// Optional observer called (inside the hook, TRACK off) when a tracked block is freed.
static DEALLOC_OBSERVER: AtomicUsize = AtomicUsize::new(0);
pub fn set_dealloc_observer(f: Option<fn(BlockInfo)>) {
    DEALLOC_OBSERVER.store(f.map(|f| f as usize).unwrap_or(0), Ordering::SeqCst);
}

struct HookGuard {
    prev: bool,
}
impl HookGuard {
    fn enter() -> Option<HookGuard> {
        let prev = IN_HOOK.with(|c| c.replace(true));
        if prev {
            None
        } else {
            while G.lock.compare_exchange(false, true, Ordering::Acquire, Ordering::Relaxed).is_err() {
                std::hint::spin_loop();
            }
            Some(HookGuard { prev })
        }
    }
}
impl Drop for HookGuard {
    fn drop(&mut self) {
        G.lock.store(false, Ordering::Release);
        IN_HOOK.with(|c| c.set(self.prev));
    }
}

fn with_state<R>(f: impl FnOnce(&mut State) -> R) -> Option<R> {
    let _g = HookGuard::enter()?;
    let st = unsafe { &mut *G.st.get() };
    if st.is_none() {
        *st = Some(State {
            cfg: AllocCfg::default(),
            blocks: BTreeMap::new(),
            events: Vec::new(),
            violations: Vec::new(),
            next_id: 0,
            op_uid: 0,
            op_k: 0,
            stats: Stats::default(),
            quarantine: Default::default(),
            quarantine_bytes: 0,
            record_events: true,
            arenas: Vec::new(),
        });
    }
    Some(f(st.as_mut().unwrap()))
}

// ---------------------------------------------------------------- public control

pub fn set_track(on: bool) -> bool {
    TRACK.with(|c| c.replace(on))
}
pub fn tracking() -> bool {
    TRACK.with(|c| c.get())
}
struct TrackGuard(bool);
impl Drop for TrackGuard {
    fn drop(&mut self) {
        set_track(self.0);
    }
}
/// Run `f` with tracking on (restored also on unwind).
pub fn track<R>(f: impl FnOnce() -> R) -> R {
    let _g = TrackGuard(set_track(true));
    f()
}
/// Run `f` with tracking off.
pub fn untracked<R>(f: impl FnOnce() -> R) -> R {
    let _g = TrackGuard(set_track(false));
    f()
}

/// Start a new run: release everything the previous run left, set configuration.
pub fn begin_run(cfg: AllocCfg) {
    with_state(|s| {
        let blocks = std::mem::take(&mut s.blocks);
        for (_, b) in blocks {
            if b.raw_size == 0 {
                continue; // lives in an arena
            }
            unsafe {
                asan_unpoison(b.raw, b.raw_size);
                System.dealloc(b.raw as *mut u8, Layout::from_size_align_unchecked(b.raw_size, b.raw_align))
            };
        }
        for (base, _) in std::mem::take(&mut s.arenas) {
            unsafe {
                asan_unpoison(base, ARENA);
                System.dealloc(base as *mut u8, Layout::from_size_align_unchecked(ARENA, 16));
            }
        }
        s.cfg = cfg;
        s.events.clear();
        s.violations.clear();
        s.next_id = 0;
        s.op_uid = 0;
        s.op_k = 0;
        s.stats = Stats::default();
        s.quarantine.clear();
        s.quarantine_bytes = 0;
        s.record_events = true;
    });
}
pub fn set_record_events(on: bool) {
    with_state(|s| s.record_events = on);
}
pub fn set_op(uid: u64) {
    with_state(|s| {
        s.op_uid = uid;
        s.op_k = 0;
    });
}
pub fn take_events() -> Vec<Event> {
    with_state(|s| std::mem::take(&mut s.events)).unwrap_or_default()
}
pub fn clear_events() {
    with_state(|s| s.events.clear());
}
pub fn take_violations() -> Vec<String> {
    with_state(|s| std::mem::take(&mut s.violations)).unwrap_or_default()
}
pub fn stats() -> Stats {
    with_state(|s| s.stats).unwrap_or_default()
}
pub fn reset_peak() {
    with_state(|s| s.stats.peak_live_bytes = s.stats.live_bytes);
}

fn info(b: &Block) -> BlockInfo {
    BlockInfo { id: b.id, user: b.user, size: b.size, align: b.align, live: b.live, born_op: b.born_op }
}

/// The tracked block (live or quarantined) with `user <= addr <= user+size`.
pub fn lookup(addr: usize) -> Option<BlockInfo> {
    with_state(|s| s.blocks.range(..=addr).next_back().filter(|(_, b)| addr <= b.user + b.size).map(|(_, b)| info(b)))
        .flatten()
}
/// The tracked block whose raw extent (including red zones) contains addr.
pub fn lookup_raw(addr: usize) -> Option<BlockInfo> {
    with_state(|s| {
        s.blocks
            .range(..=addr + RZ + 64)
            .rev()
            .take(3)
            .find(|(_, b)| addr >= b.raw && addr < b.raw + b.raw_size)
            .map(|(_, b)| info(b))
    })
    .flatten()
}
pub fn live_blocks() -> Vec<BlockInfo> {
    with_state(|s| s.blocks.values().filter(|b| b.live).map(info).collect()).unwrap_or_default()
}
pub fn block_by_id(id: u32) -> Option<BlockInfo> {
    with_state(|s| s.blocks.values().find(|b| b.id == id).map(info)).flatten()
}

/// Check canaries of live blocks (and, if `full`, canaries + poison of quarantined ones).
pub fn verify(full: bool) {
    if cfg!(feature = "asan") {
        // red zones and quarantined blocks are poisoned: ASAN reports the offending access
        // itself, and reading them here would trip it
        let _ = full;
        return;
    }
    with_state(|s| {
        let mut found: Vec<String> = Vec::new();
        for b in s.blocks.values() {
            if !b.live && !full {
                continue;
            }
            if b.raw_size == 0 {
                // packed block: no red zones of its own; poison of a freed one is still checked
                if !b.live {
                    unsafe {
                        for i in 0..b.size {
                            if *(b.user as *const u8).add(i) != POISON {
                                found.push(format!("write after free: block#{} (size {}, align {}) byte {} modified after it was freed", b.id, b.size, b.align, i));
                                break;
                            }
                        }
                    }
                }
                continue;
            }
            unsafe {
                let raw = b.raw as *const u8;
                for i in 0..b.front {
                    if *raw.add(i) != CANARY {
                        found.push(format!(
                            "write before block: block#{} (size {}, align {}, {}) byte at user-{} overwritten",
                            b.id,
                            b.size,
                            b.align,
                            if b.live { "live" } else { "freed" },
                            b.front - i
                        ));
                        break;
                    }
                }
                let end = b.front + b.size;
                for i in end..b.raw_size {
                    if *raw.add(i) != CANARY {
                        found.push(format!(
                            "write past block: block#{} (size {}, align {}, {}) byte at user+size+{} overwritten",
                            b.id,
                            b.size,
                            b.align,
                            if b.live { "live" } else { "freed" },
                            i - end
                        ));
                        break;
                    }
                }
                if !b.live {
                    for i in 0..b.size {
                        if *raw.add(b.front + i) != POISON {
                            found.push(format!(
                                "write after free: block#{} (size {}, align {}) byte {} modified after it was freed",
                                b.id, b.size, b.align, i
                            ));
                            break;
                        }
                    }
                }
            }
        }
        s.violations.extend(found);
    });
}

// ---------------------------------------------------------------- the allocator

pub struct SimAlloc;

impl State {
    fn decision(&mut self, tag: u64) -> u64 {
        let k = self.op_k;
        self.op_k += 1;
        mix(&[self.cfg.seed, self.op_uid, k, tag])
    }

    unsafe fn new_block(&mut self, layout: Layout) -> *mut u8 {
        let size = layout.size();
        let align = layout.align();
        if size > MAX_REQ {
            return std::ptr::null_mut();
        }
        let d = self.decision(1);
        let byteish = align == 1 && size > 0;
        if byteish && self.cfg.parity == Parity::Packed && size <= ARENA / 4 {
            let need_new = match self.arenas.last() {
                Some((_, used)) => used + size + ARENA_PAD > ARENA,
                None => true,
            };
            if need_new {
                let base = System.alloc(Layout::from_size_align_unchecked(ARENA, 16));
                if base.is_null() {
                    return base;
                }
                std::ptr::write_bytes(base, CANARY, ARENA);
                self.arenas.push((base as usize, ARENA_PAD));
            }
            let (base, used) = self.arenas.last_mut().unwrap();
            let user = (*base + *used) as *mut u8;
            *used += size;
            std::ptr::write_bytes(user, FRESH, size);
            let id = self.next_id;
            self.next_id += 1;
            self.blocks.insert(user as usize, Block { id, user: user as usize, size, align, raw: user as usize, raw_size: 0, raw_align: 1, front: 0, live: true, born_op: self.op_uid });
            self.stats.allocs += 1;
            self.stats.align1_allocs += 1;
            if (user as usize) & 1 == 1 {
                self.stats.odd_placements += 1;
            } else {
                self.stats.even_placements += 1;
            }
            self.stats.live_blocks += 1;
            self.stats.live_bytes += size;
            if self.stats.live_bytes > self.stats.peak_live_bytes {
                self.stats.peak_live_bytes = self.stats.live_bytes;
            }
            if self.record_events {
                self.events.push(Event { kind: EvKind::Alloc, align, size, id });
            }
            return user;
        }
        let front_base = if align > RZ { align } else { RZ };
        let want_odd = match self.cfg.parity {
            Parity::Even => false,
            Parity::Odd => true,
            Parity::Mixed | Parity::Packed => d & 1 == 1,
        };
        let pad = if byteish && want_odd { 1 } else { 0 };
        let slack = if byteish && self.cfg.realloc != ReallocMode::Move {
            match (d >> 8) % 3 {
                0 => 0,
                1 => 16,
                _ => size.min(256),
            }
        } else {
            0
        };
        let front = front_base + pad;
        let raw_size = front + size + slack + RZ;
        let raw_align = if align > 16 { align } else { 16 };
        let raw = System.alloc(Layout::from_size_align_unchecked(raw_size, raw_align));
        if raw.is_null() {
            return raw;
        }
        std::ptr::write_bytes(raw, CANARY, raw_size);
        let user = raw.add(front);
        std::ptr::write_bytes(user, FRESH, size);
        asan_poison(raw as usize, front);
        asan_poison(user as usize + size, raw_size - front - size);
        let id = self.next_id;
        self.next_id += 1;
        self.blocks.insert(
            user as usize,
            Block { id, user: user as usize, size, align, raw: raw as usize, raw_size, raw_align, front, live: true, born_op: self.op_uid },
        );
        self.stats.allocs += 1;
        if align == 1 {
            self.stats.align1_allocs += 1;
            if (user as usize) & 1 == 1 {
                self.stats.odd_placements += 1;
            } else {
                self.stats.even_placements += 1;
            }
        }
        self.stats.live_blocks += 1;
        self.stats.live_bytes += size;
        if self.stats.live_bytes > self.stats.peak_live_bytes {
            self.stats.peak_live_bytes = self.stats.live_bytes;
        }
        if self.record_events {
            self.events.push(Event { kind: EvKind::Alloc, align, size, id });
        }
        let obs = ALLOC_OBSERVER.load(Ordering::SeqCst);
        if obs != 0 {
            let f: fn(BlockInfo) = std::mem::transmute(obs);
            f(BlockInfo { id, user: user as usize, size, align, live: true, born_op: self.op_uid });
        }
        user
    }

    /// Returns Ok(()) if the pointer was a tracked block (handled, possibly with a
    /// recorded violation), Err(()) if unknown.
    unsafe fn free_block(&mut self, ptr: *mut u8, layout: Layout, quiet_event: bool) -> Result<(), ()> {
        let addr = ptr as usize;
        let (was_live, id, size, align) = match self.blocks.get_mut(&addr) {
            None => return Err(()),
            Some(b) => {
                let r = (b.live, b.id, b.size, b.align);
                if b.live {
                    b.live = false;
                }
                r
            }
        };
        if !was_live {
            self.violations.push(format!(
                "double free: block#{} (size {}, align {}) freed again with layout (size {}, align {})",
                id,
                size,
                align,
                layout.size(),
                layout.align()
            ));
            return Ok(());
        }
        if size != layout.size() || align != layout.align() {
            self.violations.push(format!(
                "free with wrong layout: block#{} was allocated with (size {}, align {}) but freed with (size {}, align {})",
                id,
                size,
                align,
                layout.size(),
                layout.align()
            ));
        }
        // canaries
        if !cfg!(feature = "asan") && self.blocks.get(&addr).map(|b| b.raw_size > 0).unwrap_or(false) {
            let b = self.blocks.get(&addr).unwrap();
            let raw = b.raw as *const u8;
            let mut bad: Option<String> = None;
            for i in 0..b.front {
                if *raw.add(i) != CANARY {
                    bad = Some(format!("write before block: block#{} (size {}) found at free", b.id, b.size));
                    break;
                }
            }
            if bad.is_none() {
                for i in (b.front + b.size)..b.raw_size {
                    if *raw.add(i) != CANARY {
                        bad = Some(format!(
                            "write past block: block#{} (size {}) byte at user+size+{} overwritten, found at free",
                            b.id,
                            b.size,
                            i - (b.front + b.size)
                        ));
                        break;
                    }
                }
            }
            if let Some(m) = bad {
                self.violations.push(m);
                // repair so it is reported once
                std::ptr::write_bytes(b.raw as *mut u8, CANARY, b.front);
                std::ptr::write_bytes((b.raw + b.front + b.size) as *mut u8, CANARY, b.raw_size - b.front - b.size);
            }
        }
        std::ptr::write_bytes(ptr, POISON, size);
        asan_poison(ptr as usize, size);
        self.stats.deallocs += 1;
        self.stats.live_blocks -= 1;
        self.stats.live_bytes -= size;
        if self.record_events && !quiet_event {
            self.events.push(Event { kind: EvKind::Dealloc, align, size, id });
        }
        self.quarantine.push_back(addr);
        self.quarantine_bytes += size;
        while self.quarantine_bytes > self.cfg.quarantine_cap {
            if let Some(old) = self.quarantine.pop_front() {
                if let Some(b) = self.blocks.remove(&old) {
                    self.quarantine_bytes -= b.size;
                    if b.raw_size == 0 {
                        continue;
                    }
                    asan_unpoison(b.raw, b.raw_size);
                    System.dealloc(b.raw as *mut u8, Layout::from_size_align_unchecked(b.raw_size, b.raw_align));
                }
            } else {
                break;
            }
        }
        let obs = DEALLOC_OBSERVER.load(Ordering::SeqCst);
        if obs != 0 {
            let f: fn(BlockInfo) = std::mem::transmute(obs);
            f(BlockInfo { id, user: addr, size, align, live: false, born_op: 0 });
        }
        Ok(())
    }
}

unsafe impl GlobalAlloc for SimAlloc {
    unsafe fn alloc(&self, layout: Layout) -> *mut u8 {
        if !TRACK.with(|c| c.get()) {
            return System.alloc(layout);
        }
        let p = match HookGuard::enter() {
            None => return System.alloc(layout),
            Some(_g) => {
                let st = &mut *G.st.get();
                match st.as_mut() {
                    None => System.alloc(layout),
                    Some(s) => s.new_block(layout),
                }
            }
        };
        run_alloc_hook();
        p
    }

    unsafe fn dealloc(&self, ptr: *mut u8, layout: Layout) {
        match HookGuard::enter() {
            None => System.dealloc(ptr, layout),
            Some(_g) => {
                let st = &mut *G.st.get();
                let handled = match st.as_mut() {
                    None => Err(()),
                    Some(s) => {
                        if s.blocks.is_empty() {
                            Err(())
                        } else {
                            match s.free_block(ptr, layout, false) {
                                Ok(()) => Ok(()),
                                Err(()) => {
                                    // interior / red-zone pointer of a tracked block?
                                    let addr = ptr as usize;
                                    let hit = s
                                        .blocks
                                        .range(..=addr + RZ + 64)
                                        .rev()
                                        .take(3)
                                        .find(|(_, b)| addr >= b.raw && addr < b.raw + b.raw_size)
                                        .map(|(_, b)| (b.id, b.size, addr as isize - b.user as isize));
                                    if let Some((id, size, off)) = hit {
                                        s.violations.push(format!(
                                            "invalid free: pointer at offset {} of block#{} (size {}) passed to dealloc (size {}, align {})",
                                            off,
                                            id,
                                            size,
                                            layout.size(),
                                            layout.align()
                                        ));
                                        Ok(())
                                    } else {
                                        Err(())
                                    }
                                }
                            }
                        }
                    }
                };
                if handled.is_err() {
                    System.dealloc(ptr, layout);
                }
            }
        }
    }

    unsafe fn realloc(&self, ptr: *mut u8, layout: Layout, new_size: usize) -> *mut u8 {
        let g = match HookGuard::enter() {
            None => return System.realloc(ptr, layout, new_size),
            Some(g) => g,
        };
        let st = &mut *G.st.get();
        let s = match st.as_mut() {
            None => {
                drop(g);
                return System.realloc(ptr, layout, new_size);
            }
            Some(s) => s,
        };
        let addr = ptr as usize;
        let known = s.blocks.get(&addr).map(|b| (b.live, b.id, b.size, b.align));
        match known {
            None => {
                // not ours: maybe interior pointer
                let hit = s
                    .blocks
                    .range(..=addr + RZ + 64)
                    .rev()
                    .take(3)
                    .find(|(_, b)| addr >= b.raw && addr < b.raw + b.raw_size)
                    .map(|(_, b)| (b.id, b.size, addr as isize - b.user as isize));
                if let Some((id, size, off)) = hit {
                    s.violations.push(format!(
                        "invalid realloc: pointer at offset {} of block#{} (size {}) passed to realloc",
                        off, id, size
                    ));
                    // give the caller fresh memory so it can continue
                    let tracked = TRACK.with(|c| c.get());
                    let nl = Layout::from_size_align_unchecked(new_size, layout.align());
                    return if tracked { s.new_block(nl) } else { System.alloc(nl) };
                }
                drop(g);
                // untracked memory growing: stays untracked unless TRACK is on, in
                // which case it migrates into the ledger
                if TRACK.with(|c| c.get()) {
                    let g2 = HookGuard::enter().unwrap();
                    let s = (&mut *G.st.get()).as_mut().unwrap();
                    let nl = Layout::from_size_align_unchecked(new_size, layout.align());
                    let np = s.new_block(nl);
                    drop(g2);
                    if !np.is_null() {
                        std::ptr::copy_nonoverlapping(ptr, np, layout.size().min(new_size));
                        System.dealloc(ptr, layout);
                    }
                    return np;
                }
                System.realloc(ptr, layout, new_size)
            }
            Some((live, id, size, align)) => {
                if !live {
                    s.violations.push(format!("realloc of freed block#{} (size {})", id, size));
                    let nl = Layout::from_size_align_unchecked(new_size, layout.align());
                    return s.new_block(nl);
                }
                if size != layout.size() || align != layout.align() {
                    s.violations.push(format!(
                        "realloc with wrong layout: block#{} was allocated with (size {}, align {}) but realloc passed (size {}, align {})",
                        id,
                        size,
                        align,
                        layout.size(),
                        layout.align()
                    ));
                }
                if new_size > MAX_REQ {
                    return std::ptr::null_mut();
                }
                let d = s.decision(2);
                let room = {
                    let b = s.blocks.get(&addr).unwrap();
                    if b.raw_size == 0 {
                        b.size // packed: may only shrink in place
                    } else {
                        b.raw_size - b.front - RZ
                    }
                };
                let inplace_ok = new_size <= room && new_size > 0;
                let choose_inplace = inplace_ok
                    && match s.cfg.realloc {
                        ReallocMode::Move => false,
                        ReallocMode::InPlace => true,
                        ReallocMode::Mixed => d & 1 == 0,
                    };
                if choose_inplace {
                    let b = s.blocks.get_mut(&addr).unwrap();
                    let old = b.size;
                    if new_size > old {
                        asan_unpoison(ptr as usize + old, new_size - old);
                        std::ptr::write_bytes(ptr.add(old), FRESH, new_size - old);
                    } else {
                        std::ptr::write_bytes(ptr.add(new_size), CANARY, old - new_size);
                        asan_poison(ptr as usize + new_size, old - new_size);
                    }
                    b.size = new_size;
                    s.stats.live_bytes = s.stats.live_bytes + new_size - old;
                    if s.stats.live_bytes > s.stats.peak_live_bytes {
                        s.stats.peak_live_bytes = s.stats.live_bytes;
                    }
                    s.stats.realloc_inplace += 1;
                    if s.record_events {
                        s.events.push(Event { kind: EvKind::ReallocInPlace, align, size: new_size, id });
                    }
                    ptr
                } else {
                    let nl = Layout::from_size_align_unchecked(new_size, align);
                    let rec = s.record_events;
                    s.record_events = false;
                    let np = s.new_block(nl);
                    if np.is_null() {
                        s.record_events = rec;
                        return np;
                    }
                    std::ptr::copy_nonoverlapping(ptr, np, size.min(new_size));
                    let _ = s.free_block(ptr, Layout::from_size_align_unchecked(size, align), true);
                    s.record_events = rec;
                    s.stats.realloc_moves += 1;
                    if s.record_events {
                        s.events.push(Event { kind: EvKind::ReallocMove, align, size: new_size, id });
                    }
                    np
                }
            }
        }
    }
}
