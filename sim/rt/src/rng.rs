//! SplitMix64-seeded xoshiro256**. In-crate so the stream is identical in every
//! build, profile and toolchain. One root value decides everything in a run.

#[derive(Clone, Debug)]
pub struct Rng {
    s: [u64; 4],
}

#[inline]
pub fn splitmix(x: &mut u64) -> u64 {
    *x = x.wrapping_add(0x9E37_79B9_7F4A_7C15);
    let mut z = *x;
    z = (z ^ (z >> 30)).wrapping_mul(0xBF58_476D_1CE4_E5B9);
    z = (z ^ (z >> 27)).wrapping_mul(0x94D0_49BB_1331_11EB);
    z ^ (z >> 31)
}

/// Stateless mixing of several integers into one (used for derived seeds and
/// for allocator decisions that must be stable under step deletion).
pub fn mix(parts: &[u64]) -> u64 {
    let mut acc = 0x243F_6A88_85A3_08D3u64;
    for &p in parts {
        let mut x = acc ^ p.wrapping_mul(0x9E37_79B9_7F4A_7C15);
        acc = splitmix(&mut x);
    }
    acc
}

impl Rng {
    pub fn new(seed: u64) -> Rng {
        let mut x = seed;
        let s = [
            splitmix(&mut x),
            splitmix(&mut x),
            splitmix(&mut x),
            splitmix(&mut x),
        ];
        Rng { s }
    }

    /// Independent stream derived from this one's seed material and a tag.
    pub fn split(&mut self, tag: u64) -> Rng {
        let a = self.next_u64();
        Rng::new(mix(&[a, tag]))
    }

    #[inline]
    pub fn next_u64(&mut self) -> u64 {
        let r = self.s[1].wrapping_mul(5).rotate_left(7).wrapping_mul(9);
        let t = self.s[1] << 17;
        self.s[2] ^= self.s[0];
        self.s[3] ^= self.s[1];
        self.s[1] ^= self.s[2];
        self.s[0] ^= self.s[3];
        self.s[2] ^= t;
        self.s[3] = self.s[3].rotate_left(45);
        r
    }

    /// Uniform in 0..n (n > 0). Slight modulo bias is irrelevant here.
    #[inline]
    pub fn below(&mut self, n: usize) -> usize {
        debug_assert!(n > 0);
        (self.next_u64() % (n as u64)) as usize
    }

    /// Uniform in lo..=hi.
    #[inline]
    pub fn range(&mut self, lo: usize, hi: usize) -> usize {
        debug_assert!(lo <= hi);
        lo + self.below(hi - lo + 1)
    }

    #[inline]
    pub fn chance(&mut self, num: u32, den: u32) -> bool {
        (self.next_u64() % den as u64) < num as u64
    }

    #[inline]
    pub fn pick<'a, T>(&mut self, xs: &'a [T]) -> &'a T {
        &xs[self.below(xs.len())]
    }

    /// Weighted index.
    pub fn weighted(&mut self, w: &[u32]) -> usize {
        let total: u64 = w.iter().map(|&x| x as u64).sum();
        debug_assert!(total > 0);
        let mut r = self.next_u64() % total;
        for (i, &x) in w.iter().enumerate() {
            if r < x as u64 {
                return i;
            }
            r -= x as u64;
        }
        w.len() - 1
    }

    pub fn fill(&mut self, out: &mut [u8]) {
        for ch in out.chunks_mut(8) {
            let v = self.next_u64().to_le_bytes();
            ch.copy_from_slice(&v[..ch.len()]);
        }
    }

    pub fn bytes(&mut self, n: usize) -> Vec<u8> {
        let mut v = vec![0u8; n];
        self.fill(&mut v);
        v
    }
}

/// FNV-1a 64, for digests (no addresses ever go in).
#[derive(Clone, Copy)]
pub struct Fnv(pub u64);
impl Default for Fnv {
    fn default() -> Self {
        Fnv(0xcbf2_9ce4_8422_2325)
    }
}
impl Fnv {
    #[inline]
    pub fn bytes(&mut self, b: &[u8]) {
        for &x in b {
            self.0 ^= x as u64;
            self.0 = self.0.wrapping_mul(0x0000_0100_0000_01B3);
        }
    }
    #[inline]
    pub fn u64(&mut self, v: u64) {
        self.bytes(&v.to_le_bytes());
    }
    #[inline]
    pub fn str(&mut self, s: &str) {
        self.bytes(s.as_bytes());
        self.bytes(&[0xff]);
    }
}
pub fn fnv(b: &[u8]) -> u64 {
    let mut f = Fnv::default();
    f.bytes(b);
    f.0
}
