//! Crash journal: before each operation the worker appends its concrete description
//! to a pre-opened file with one write. If the process dies (SIGSEGV, SIGABRT, ASAN)
//! the driver still has the exact prefix for the replay file.

use std::fs::File;
use std::io::{Seek, SeekFrom, Write};

pub struct Journal {
    f: Option<File>,
}

impl Journal {
    pub fn none() -> Journal {
        Journal { f: None }
    }
    pub fn open(path: &str) -> Journal {
        Journal { f: File::create(path).ok() }
    }
    pub fn reset(&mut self, header: &str) {
        if let Some(f) = self.f.as_mut() {
            let _ = f.set_len(0);
            let _ = f.seek(SeekFrom::Start(0));
            let _ = f.write_all(header.as_bytes());
            let _ = f.write_all(b"\n");
        }
    }
    pub fn line(&mut self, s: &str) {
        if let Some(f) = self.f.as_mut() {
            let mut buf = Vec::with_capacity(s.len() + 1);
            buf.extend_from_slice(s.as_bytes());
            buf.push(b'\n');
            let _ = f.write_all(&buf);
        }
    }
}
