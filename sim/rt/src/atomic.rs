//! Scheduler-owned atomics for the E-sched build (feature `sched`).
//!
//! `AtomicPtr` / `AtomicUsize` wrap shuttle's atomics, so every access made by the
//! crate under test is a scheduling point. Around each inner call the shim
//!   * saves and clears the allocator's TRACK flag (tasks share one OS thread, so a
//!     context switch inside a crate call must not make another task's harness
//!     allocations look like crate allocations),
//!   * records the operation for reach probes,
//!   * feeds the ordering-aware happens-before ledger: shuttle itself executes only
//!     sequentially consistent interleavings and treats every ordering as SeqCst; the
//!     ledger recomputes happens-before from the orderings *written in the source*
//!     (C++20 release sequences), so a weakened Release/Acquire shows up as an
//!     unordered conflicting pair at a deallocation or an exclusive write.

use std::cell::{Cell, RefCell};
use std::collections::HashMap;

pub use std::sync::atomic::Ordering;

use shuttle::sync::atomic as sh;

#[cfg(feature = "simalloc")]
use crate::alloc;

// ------------------------------------------------------------------ the HB ledger

pub type Vc = Vec<u32>;

fn join(a: &mut Vc, b: &Vc) {
    if a.len() < b.len() {
        a.resize(b.len(), 0);
    }
    for (i, v) in b.iter().enumerate() {
        if a[i] < *v {
            a[i] = *v;
        }
    }
}

#[derive(Default, Clone)]
struct Acc {
    /// (lo, hi, task, epoch = task's own clock component at the access, is_write)
    entries: Vec<(usize, usize, usize, u32, bool)>,
}

#[derive(Default)]
pub struct Probes {
    pub m: std::collections::BTreeMap<&'static str, u64>,
}

#[derive(Default)]
pub struct Hb {
    pub enabled: bool,
    pub cur: usize,
    clocks: Vec<Vc>,
    finals: HashMap<usize, Vc>,
    rel: HashMap<u64, Vc>,
    /// fences (C++ [atomics.fences]): per task, the release clocks of everything it has read with
    /// a non-acquire operation (an acquire fence turns them into edges), and its clock at its
    /// last release fence (a later relaxed store / RMW releases that clock)
    pend_acq: HashMap<usize, Vc>,
    fence_rel: HashMap<usize, Vc>,
    acc: HashMap<u32, Acc>, // by tracked block id
    pub races: Vec<String>,
    pub probes: Probes,
    pub atomic_ops: u64,
    next_loc: u64,
    /// last atomic event (for reach probes): (task, loc, was_decrement)
    last: Option<(usize, u64, bool)>,
}

thread_local! {
    static HB: RefCell<Hb> = RefCell::new(Hb::default());
    static LOC_COUNTER: Cell<u64> = const { Cell::new(1) };
}

fn with<R>(f: impl FnOnce(&mut Hb) -> R) -> R {
    #[cfg(feature = "simalloc")]
    let saved = alloc::set_track(false);
    let r = HB.with(|h| f(&mut h.borrow_mut()));
    #[cfg(feature = "simalloc")]
    alloc::set_track(saved);
    r
}

impl Hb {
    fn clock(&mut self, t: usize) -> &mut Vc {
        while self.clocks.len() <= t {
            let n = self.clocks.len();
            let mut v = vec![0; n + 1];
            v[n] = 1;
            self.clocks.push(v);
        }
        let c = &mut self.clocks[t];
        if c.len() <= t {
            c.resize(t + 1, 0);
        }
        if c[t] == 0 {
            c[t] = 1;
        }
        c
    }
    fn tick(&mut self, t: usize) -> u32 {
        let c = self.clock(t);
        c[t] += 1;
        c[t]
    }
    fn hit(&mut self, k: &'static str) {
        *self.probes.m.entry(k).or_insert(0) += 1;
    }

    fn acquire(&mut self, t: usize, loc: u64) {
        if let Some(r) = self.rel.get(&loc).cloned() {
            join(self.clock(t), &r);
        }
    }
    fn release_store(&mut self, t: usize, loc: u64) {
        let c = self.clock(t).clone();
        self.rel.insert(loc, c);
    }
    fn release_rmw(&mut self, t: usize, loc: u64) {
        let c = self.clock(t).clone();
        let e = self.rel.entry(loc).or_default();
        join(e, &c);
    }
    fn relaxed_store(&mut self, t: usize, loc: u64) {
        // a plain store ends the release sequence it overwrites; after a release fence by the
        // same task it heads a new one that carries the fence's clock
        match self.fence_rel.get(&t).cloned() {
            Some(fc) => {
                self.rel.insert(loc, fc);
            }
            None => {
                self.rel.remove(&loc);
            }
        }
    }
    fn relaxed_rmw(&mut self, t: usize, loc: u64) {
        // continues the release sequence; after a release fence it also releases the fence's clock
        if let Some(fc) = self.fence_rel.get(&t).cloned() {
            let e = self.rel.entry(loc).or_default();
            join(e, &fc);
        }
    }
    fn relaxed_read(&mut self, t: usize, loc: u64) {
        if let Some(r) = self.rel.get(&loc).cloned() {
            join(self.pend_acq.entry(t).or_default(), &r);
        }
    }
    fn fence(&mut self, t: usize, acq: bool, rel: bool) {
        if acq {
            if let Some(p) = self.pend_acq.get(&t).cloned() {
                join(self.clock(t), &p);
            }
        }
        if rel {
            let c = self.clock(t).clone();
            self.fence_rel.insert(t, c);
        }
    }

    /// An access by task `t` to bytes [lo, hi) of tracked block `blk`; `write` = mutation
    /// or deallocation. `check` = false for atomic operations (they never race; they are
    /// only recorded so that the deallocation must come after them).
    fn access(&mut self, t: usize, blk: u32, lo: usize, hi: usize, write: bool, check: bool, what: &str) {
        if check {
            let now = self.clock(t).clone();
            let mut conflicts: Vec<String> = Vec::new();
            if let Some(a) = self.acc.get(&blk) {
                for &(elo, ehi, u, ep, ew) in a.entries.iter() {
                    if u != t && elo < hi && lo < ehi && (write || ew) && now.get(u).copied().unwrap_or(0) < ep {
                        conflicts.push(format!("{} by task {}", if ew { "write" } else { "read/atomic use" }, u));
                    }
                }
            }
            if !conflicts.is_empty() {
                conflicts.sort();
                conflicts.dedup();
                self.races.push(format!("{} by task {} on block#{} [{}..{}) is not ordered after {}", what, t, blk, lo, hi, conflicts.join(" and ")));
            }
        }
        let ep = self.tick(t);
        let e = self.acc.entry(blk).or_default();
        for x in e.entries.iter_mut() {
            if x.0 == lo && x.1 == hi && x.2 == t && x.4 == write {
                x.3 = ep;
                return;
            }
        }
        e.entries.push((lo, hi, t, ep, write));
    }
}

// ------------------------------------------------------------------ harness-facing API

/// Reset for a new execution.
pub fn begin_execution(enabled: bool) {
    with(|h| {
        *h = Hb::default();
        h.enabled = enabled;
    });
}
/// Published by the simulator's scheduler at every scheduling decision.
pub fn set_current(task: usize) {
    let _ = HB.try_with(|h| {
        if let Ok(mut h) = h.try_borrow_mut() {
            h.cur = task;
        }
    });
}
pub fn current() -> usize {
    HB.with(|h| h.try_borrow().map(|h| h.cur).unwrap_or(0))
}
pub fn take_races() -> Vec<String> {
    with(|h| std::mem::take(&mut h.races))
}
pub fn take_probes() -> std::collections::BTreeMap<&'static str, u64> {
    with(|h| std::mem::take(&mut h.probes.m))
}
pub fn atomic_ops() -> u64 {
    with(|h| h.atomic_ops)
}
/// Parent side of spawn: snapshot to hand to the child.
pub fn spawn_token() -> Vc {
    with(|h| {
        let t = h.cur;
        h.tick(t);
        h.clock(t).clone()
    })
}
/// Child side: first thing a task does.
pub fn child_start(me: usize, token: &Vc) {
    with(|h| {
        h.cur = me;
        let c = h.clock(me);
        join(c, token);
    })
}
/// Child side: last thing a task does.
pub fn child_end(me: usize) {
    with(|h| {
        h.tick(me);
        let c = h.clock(me).clone();
        h.finals.insert(me, c);
    })
}
/// Parent side of join, after the join returned.
pub fn joined(me: usize, child: usize) {
    with(|h| {
        h.cur = me;
        if let Some(f) = h.finals.get(&child).cloned() {
            join(h.clock(me), &f);
        }
    })
}
/// Ghost access: the harness is about to read (`write == false`) or overwrite
/// (`write == true`) buffer memory at `ptr` through a handle.
#[cfg(feature = "simalloc")]
pub fn note_access(ptr: usize, len: usize, write: bool, what: &str) {
    if len == 0 {
        return;
    }
    let blk = alloc::untracked(|| alloc::lookup(ptr));
    if let Some(b) = blk {
        with(|h| {
            if h.enabled {
                let t = h.cur;
                let lo = ptr - b.user;
                h.access(t, b.id, lo, lo + len, write, true, what);
            }
        });
    }
}
/// Called from SimAlloc's alloc observer: the allocating task initialises the block with
/// plain writes (e.g. `Box::new(Shared { .. })`); every later use by another task — also an
/// atomic one — must be ordered after them.
#[cfg(feature = "simalloc")]
pub fn on_alloc(b: alloc::BlockInfo) {
    let _ = HB.try_with(|h| {
        if let Ok(mut h) = h.try_borrow_mut() {
            if h.enabled {
                let t = h.cur;
                h.access(t, b.id, 0, b.size.max(1), true, false, "initialisation");
            }
        }
    });
}
/// Called from SimAlloc's dealloc observer.
#[cfg(feature = "simalloc")]
pub fn on_dealloc(b: alloc::BlockInfo) {
    let _ = HB.try_with(|h| {
        if let Ok(mut h) = h.try_borrow_mut() {
            if h.enabled {
                let t = h.cur;
                h.access(t, b.id, 0, b.size.max(1), true, true, &format!("deallocation (size {}, align {})", b.size, b.align));
            }
        }
    });
}

// ------------------------------------------------------------------ the atomics

fn new_loc() -> u64 {
    LOC_COUNTER.with(|c| {
        let v = c.get();
        c.set(v + 1);
        v
    })
}

struct Pre {
    #[cfg(feature = "simalloc")]
    track: bool,
}
fn pre() -> Pre {
    Pre {
        #[cfg(feature = "simalloc")]
        track: alloc::set_track(false),
    }
}
fn post(p: Pre) {
    #[cfg(feature = "simalloc")]
    alloc::set_track(p.track);
    let _ = p;
}

fn is_acq(o: Ordering) -> bool {
    matches!(o, Ordering::Acquire | Ordering::AcqRel | Ordering::SeqCst)
}
fn is_rel(o: Ordering) -> bool {
    matches!(o, Ordering::Release | Ordering::AcqRel | Ordering::SeqCst)
}

/// Bookkeeping after an atomic op at `addr` (object address) / `loc` (object identity).
fn record(addr: usize, loc: u64, kind: &'static str, acq: bool, rel: bool, is_store: bool, is_rmw: bool, decrement: Option<usize>) {
    #[cfg(feature = "simalloc")]
    let blk = alloc::lookup(addr).filter(|b| b.live);
    with(|h| {
        h.atomic_ops += 1;
        if !h.enabled {
            return;
        }
        let t = h.cur;
        // the atomic object lives in a control block: the op is an (atomic, hence
        // non-racing) use of that block which must happen-before its deallocation
        if acq {
            h.acquire(t, loc);
        } else if !is_store {
            h.relaxed_read(t, loc);
        }
        #[cfg(feature = "simalloc")]
        if let Some(b) = blk {
            // recorded as a read-class access (conflicts only with deallocation / reuse),
            // *before* the release part so the released clock covers it
            let lo = addr - b.user;
            // an atomic operation never races with other atomics, but it does race with a plain
            // write (the initialisation of its control block) that is not ordered before it
            h.access(t, b.id, lo, lo + 8, false, true, "atomic operation on the control block");
        }
        if is_store {
            if rel {
                h.release_store(t, loc);
            } else {
                h.relaxed_store(t, loc);
            }
        } else if is_rmw {
            if rel {
                h.release_rmw(t, loc);
            } else {
                h.relaxed_rmw(t, loc);
            }
        }
        // reach probes
        if let Some((lt, lloc, ldec)) = h.last {
            if lt != t && lloc == loc {
                h.hit("consecutive_ops_on_one_atomic_by_two_tasks");
                if ldec && kind == "load" {
                    h.hit("uniqueness_load_right_after_foreign_decrement");
                }
            }
        }
        match decrement {
            Some(1) => h.hit("last_reference_decrement"),
            Some(_) => h.hit("non_last_decrement"),
            None => {}
        }
        h.last = Some((t, loc, decrement.is_some()));
        let _ = addr;
    });
}

/// `fence` of the seam: a scheduling point for the simulator and an event for the ledger.
pub fn fence(o: Ordering) {
    let p = pre();
    sh::fence(o);
    shuttle::thread::yield_now();
    with(|h| {
        h.atomic_ops += 1;
        if h.enabled {
            let t = h.cur;
            h.fence(t, is_acq(o), is_rel(o));
            h.hit("fence");
        }
    });
    post(p);
}
pub use std::sync::atomic::compiler_fence;

pub struct AtomicUsize {
    inner: sh::AtomicUsize,
    loc: Cell<u64>,
}
unsafe impl Sync for AtomicUsize {}
unsafe impl Send for AtomicUsize {}

impl AtomicUsize {
    pub const fn new(v: usize) -> Self {
        AtomicUsize { inner: sh::AtomicUsize::new(v), loc: Cell::new(0) }
    }
    fn loc(&self) -> u64 {
        if self.loc.get() == 0 {
            self.loc.set(new_loc());
        }
        self.loc.get()
    }
    fn addr(&self) -> usize {
        self as *const _ as usize
    }
    pub fn get_mut(&mut self) -> &mut usize {
        let p = pre();
        let r = self.inner.get_mut();
        post(p);
        r
    }
    pub fn load(&self, o: Ordering) -> usize {
        let p = pre();
        let v = self.inner.load(o);
        record(self.addr(), self.loc(), "load", is_acq(o), false, false, false, None);
        post(p);
        v
    }
    pub fn store(&self, v: usize, o: Ordering) {
        let p = pre();
        self.inner.store(v, o);
        record(self.addr(), self.loc(), "store", false, is_rel(o), true, false, None);
        post(p);
    }
    pub fn fetch_add(&self, v: usize, o: Ordering) -> usize {
        let p = pre();
        let r = self.inner.fetch_add(v, o);
        record(self.addr(), self.loc(), "fetch_add", is_acq(o), is_rel(o), false, true, None);
        post(p);
        r
    }
    pub fn fetch_sub(&self, v: usize, o: Ordering) -> usize {
        let p = pre();
        let r = self.inner.fetch_sub(v, o);
        record(self.addr(), self.loc(), "fetch_sub", is_acq(o), is_rel(o), false, true, Some(r));
        post(p);
        r
    }
    pub fn swap(&self, v: usize, o: Ordering) -> usize {
        let p = pre();
        let r = self.inner.swap(v, o);
        record(self.addr(), self.loc(), "swap", is_acq(o), is_rel(o), false, true, None);
        post(p);
        r
    }
    pub fn compare_exchange(&self, cur: usize, new: usize, s: Ordering, f: Ordering) -> Result<usize, usize> {
        let p = pre();
        let r = self.inner.compare_exchange(cur, new, s, f);
        match r {
            Ok(_) => {
                record(self.addr(), self.loc(), "cas_ok", is_acq(s), is_rel(s), false, true, None);
                with(|h| h.hit("usize_compare_exchange_ok"));
            }
            Err(_) => {
                record(self.addr(), self.loc(), "cas_fail", is_acq(f), false, false, false, None);
                with(|h| h.hit("usize_compare_exchange_failed"));
            }
        }
        post(p);
        r
    }
    pub fn compare_exchange_weak(&self, cur: usize, new: usize, s: Ordering, f: Ordering) -> Result<usize, usize> {
        self.compare_exchange(cur, new, s, f)
    }
    // the rest of std's AtomicUsize surface, so that a change to the crate that uses it still builds
    pub fn into_inner(self) -> usize {
        let mut s = self;
        *s.get_mut()
    }
    pub fn fetch_and(&self, v: usize, o: Ordering) -> usize {
        self.rmw(o, |x| x & v)
    }
    pub fn fetch_nand(&self, v: usize, o: Ordering) -> usize {
        self.rmw(o, |x| !(x & v))
    }
    pub fn fetch_or(&self, v: usize, o: Ordering) -> usize {
        self.rmw(o, |x| x | v)
    }
    pub fn fetch_xor(&self, v: usize, o: Ordering) -> usize {
        self.rmw(o, |x| x ^ v)
    }
    pub fn fetch_max(&self, v: usize, o: Ordering) -> usize {
        self.rmw(o, |x| x.max(v))
    }
    pub fn fetch_min(&self, v: usize, o: Ordering) -> usize {
        self.rmw(o, |x| x.min(v))
    }
    pub fn fetch_update<F: FnMut(usize) -> Option<usize>>(&self, set: Ordering, fetch: Ordering, mut f: F) -> Result<usize, usize> {
        let mut prev = self.load(fetch);
        while let Some(next) = f(prev) {
            match self.compare_exchange_weak(prev, next, set, fetch) {
                x @ Ok(_) => return x,
                Err(now) => prev = now,
            }
        }
        Err(prev)
    }
    fn rmw(&self, o: Ordering, f: impl Fn(usize) -> usize) -> usize {
        let p = pre();
        let r = self.inner.fetch_update(o, Ordering::SeqCst, |x| Some(f(x))).unwrap_or_else(|x| x);
        record(self.addr(), self.loc(), "rmw", is_acq(o), is_rel(o), false, true, None);
        post(p);
        r
    }
}
impl std::fmt::Debug for AtomicUsize {
    fn fmt(&self, f: &mut std::fmt::Formatter<'_>) -> std::fmt::Result {
        f.write_str("AtomicUsize(..)")
    }
}

pub struct AtomicPtr<T> {
    inner: sh::AtomicPtr<T>,
    loc: Cell<u64>,
}
unsafe impl<T> Sync for AtomicPtr<T> {}
unsafe impl<T> Send for AtomicPtr<T> {}

impl<T> AtomicPtr<T> {
    pub const fn new(v: *mut T) -> Self {
        AtomicPtr { inner: sh::AtomicPtr::new(v), loc: Cell::new(0) }
    }
    fn loc(&self) -> u64 {
        if self.loc.get() == 0 {
            self.loc.set(new_loc());
        }
        self.loc.get()
    }
    fn addr(&self) -> usize {
        self as *const _ as usize
    }
    pub fn get_mut(&mut self) -> &mut *mut T {
        let p = pre();
        let r = self.inner.get_mut();
        post(p);
        r
    }
    pub fn load(&self, o: Ordering) -> *mut T {
        let p = pre();
        let v = self.inner.load(o);
        record(self.addr(), self.loc(), "load", is_acq(o), false, false, false, None);
        post(p);
        v
    }
    pub fn store(&self, v: *mut T, o: Ordering) {
        let p = pre();
        self.inner.store(v, o);
        record(self.addr(), self.loc(), "store", false, is_rel(o), true, false, None);
        post(p);
    }
    pub fn swap(&self, v: *mut T, o: Ordering) -> *mut T {
        let p = pre();
        let r = self.inner.swap(v, o);
        record(self.addr(), self.loc(), "swap", is_acq(o), is_rel(o), false, true, None);
        post(p);
        r
    }
    pub fn compare_exchange(&self, cur: *mut T, new: *mut T, s: Ordering, f: Ordering) -> Result<*mut T, *mut T> {
        let p = pre();
        let r = self.inner.compare_exchange(cur, new, s, f);
        match r {
            Ok(_) => {
                record(self.addr(), self.loc(), "cas_ok", is_acq(s), is_rel(s), false, true, None);
                with(|h| h.hit("promotion_cas_won"));
            }
            Err(_) => {
                record(self.addr(), self.loc(), "cas_fail", is_acq(f), false, false, false, None);
                with(|h| h.hit("promotion_cas_lost"));
            }
        }
        post(p);
        r
    }
    pub fn compare_exchange_weak(&self, cur: *mut T, new: *mut T, s: Ordering, f: Ordering) -> Result<*mut T, *mut T> {
        self.compare_exchange(cur, new, s, f)
    }
    pub fn into_inner(self) -> *mut T {
        let mut s = self;
        *s.get_mut()
    }
    pub fn fetch_update<F: FnMut(*mut T) -> Option<*mut T>>(&self, set: Ordering, fetch: Ordering, mut f: F) -> Result<*mut T, *mut T> {
        let mut prev = self.load(fetch);
        while let Some(next) = f(prev) {
            match self.compare_exchange_weak(prev, next, set, fetch) {
                x @ Ok(_) => return x,
                Err(now) => prev = now,
            }
        }
        Err(prev)
    }
}
impl<T> std::fmt::Debug for AtomicPtr<T> {
    fn fmt(&self, f: &mut std::fmt::Formatter<'_>) -> std::fmt::Result {
        f.write_str("AtomicPtr(..)")
    }
}
