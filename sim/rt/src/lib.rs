//! Shared runtime of the bytes simulators: PRNG, JSON, the simulator-owned
//! allocator with its ledger, the crash journal, and (feature `sched`) the
//! scheduler-owned atomics with the happens-before ledger.

pub mod journal;
pub mod json;
pub mod rng;

#[cfg(feature = "simalloc")]
pub mod alloc;
#[cfg(not(feature = "simalloc"))]
#[path = "alloc_stub.rs"]
pub mod alloc;

#[cfg(feature = "sched")]
pub mod atomic;

pub use json::J;
pub use rng::{fnv, mix, Fnv, Rng};

/// A property violation found by an oracle.
#[derive(Clone, Debug)]
pub struct Violation {
    /// property ids this observation contradicts (first = primary)
    pub props: Vec<&'static str>,
    /// stable class used by the minimiser ("same violation kind")
    pub kind: String,
    pub detail: String,
    pub step: usize,
}

impl Violation {
    pub fn to_json(&self) -> J {
        J::obj()
            .set("props", J::Arr(self.props.iter().map(|p| J::from(*p)).collect()))
            .set("kind", self.kind.as_str())
            .set("detail", self.detail.as_str())
            .set("step", self.step)
    }
}

/// Silence the default panic hook (expected panics are part of every workload).
pub fn silence_panics() {
    std::panic::set_hook(Box::new(|_| {}));
}

pub fn panic_message(p: &(dyn std::any::Any + Send)) -> String {
    if let Some(s) = p.downcast_ref::<&str>() {
        s.to_string()
    } else if let Some(s) = p.downcast_ref::<String>() {
        s.clone()
    } else {
        "<non-string panic>".to_string()
    }
}
