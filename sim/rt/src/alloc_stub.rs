//! Stand-in for `alloc.rs` when the simulator-owned allocator is compiled out (under
//! Miri, which is then the allocator oracle itself): same API, no ledger.

pub const ENABLED: bool = false;
pub const MAX_REQ: usize = 1 << 30;

#[derive(Clone, Copy, Debug, PartialEq, Eq)]
pub enum Parity {
    Even,
    Odd,
    Mixed,
    Packed,
}
#[derive(Clone, Copy, Debug, PartialEq, Eq)]
pub enum ReallocMode {
    Move,
    InPlace,
    Mixed,
}
#[derive(Clone, Copy, Debug)]
pub struct AllocCfg {
    pub parity: Parity,
    pub realloc: ReallocMode,
    pub seed: u64,
    pub quarantine_cap: usize,
}
impl Default for AllocCfg {
    fn default() -> Self {
        AllocCfg { parity: Parity::Even, realloc: ReallocMode::Move, seed: 0, quarantine_cap: 0 }
    }
}
#[derive(Clone, Copy, Debug, PartialEq, Eq)]
pub enum EvKind {
    Alloc,
    Dealloc,
    ReallocMove,
    ReallocInPlace,
}
#[derive(Clone, Copy, Debug)]
pub struct Event {
    pub kind: EvKind,
    pub align: usize,
    pub size: usize,
    pub id: u32,
}
#[derive(Clone, Copy, Debug)]
pub struct BlockInfo {
    pub id: u32,
    pub user: usize,
    pub size: usize,
    pub align: usize,
    pub live: bool,
    pub born_op: u64,
}
#[derive(Clone, Copy, Debug, Default)]
pub struct Stats {
    pub live_bytes: usize,
    pub peak_live_bytes: usize,
    pub live_blocks: usize,
    pub allocs: u64,
    pub align1_allocs: u64,
    pub deallocs: u64,
    pub realloc_moves: u64,
    pub realloc_inplace: u64,
    pub even_placements: u64,
    pub odd_placements: u64,
}

pub fn set_dealloc_observer(_f: Option<fn(BlockInfo)>) {}
pub fn set_alloc_observer(_f: Option<fn(BlockInfo)>) {}
pub fn set_alloc_hook(_f: Option<fn()>) {}
pub fn set_track(_on: bool) -> bool {
    false
}
pub fn tracking() -> bool {
    false
}
pub fn track<R>(f: impl FnOnce() -> R) -> R {
    f()
}
pub fn untracked<R>(f: impl FnOnce() -> R) -> R {
    f()
}
pub fn begin_run(_cfg: AllocCfg) {}
pub fn set_record_events(_on: bool) {}
pub fn set_op(_uid: u64) {}
pub fn take_events() -> Vec<Event> {
    Vec::new()
}
pub fn clear_events() {}
pub fn take_violations() -> Vec<String> {
    Vec::new()
}
pub fn stats() -> Stats {
    Stats::default()
}
pub fn reset_peak() {}
pub fn lookup(_addr: usize) -> Option<BlockInfo> {
    None
}
pub fn lookup_raw(_addr: usize) -> Option<BlockInfo> {
    None
}
pub fn live_blocks() -> Vec<BlockInfo> {
    Vec::new()
}
pub fn block_by_id(_id: u32) -> Option<BlockInfo> {
    None
}
pub fn verify(_full: bool) {}
