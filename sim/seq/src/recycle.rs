//! C18 long-history mode (filled in below).
use rt::journal::Journal;
use rt::J;

pub fn batch(_seed: u64, _tag: u64, _from: u64, _to: u64, _args: &[String], _journal: &mut Journal) {}
pub fn replay(_rec: &J) -> i32 {
    2
}
