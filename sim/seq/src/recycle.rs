//! C18 long-history mode: a BytesMut used as a recycling buffer over 10^3..10^6 rounds
//! of a *balanced* periodic refill/consume pattern (over one period exactly as many
//! bytes are consumed as appended), so unbounded growth can only be the crate's doing.
//!
//! Oracle (DESIGN §5 C18): adaptive warm-up until live memory has stopped rising for a
//! stretch of 8x(largest capacity + retained bytes) of traffic; that defines N, the peak
//! P0; then 100*N further rounds: (i) peak <= P0; (ii) with retention window 0 no
//! byte-buffer allocation inside the refill calls on the recycling handle; (iii) a
//! reserve on an empty handle that is alone on a large-enough block never allocates.

use std::collections::VecDeque;
use std::io::Write as _;
use std::panic::{catch_unwind, AssertUnwindSafe};

use bytes::{Buf, BufMut, Bytes, BytesMut};
use rt::alloc::{self, AllocCfg, EvKind};
use rt::journal::Journal;
use rt::{mix, Rng, Violation, J};

fn arg(args: &[String], k: &str) -> Option<String> {
    args.iter().position(|a| a == k).and_then(|i| args.get(i + 1).cloned())
}

const SIZES: &[usize] = &[1, 2, 7, 16, 31, 64, 100, 255, 256, 1000, 1024, 1500, 4096, 9000, 16384];

pub fn gen_pattern(rng: &mut Rng) -> J {
    let period = rng.range(1, 16);
    let scale = *rng.pick(&[1usize, 1, 1, 4, 16]);
    let mut ms: Vec<usize> = Vec::new();
    for _ in 0..period {
        let m = match rng.below(4) {
            0 => *rng.pick(SIZES),
            1 => rng.range(1, 64),
            _ => rng.range(1, 400) * scale,
        };
        ms.push(m.min(20000));
    }
    // consumption = rotation of the appended sizes (balanced by construction)
    let rot = if rng.chance(1, 2) { 0 } else { rng.below(period) };
    let maxm = *ms.iter().max().unwrap();
    let leftover = if rot == 0 { *rng.pick(&[0usize, 0, 1, 17, 300, 3000]) } else { maxm + *rng.pick(&[0usize, 1, 50, 1000]) };
    let window = *rng.pick(&[0usize, 0, 0, 1, 2, 3, 5]);
    let mut rounds = Vec::new();
    for i in 0..period {
        let k = ms[(i + rot) % period];
        let style = *rng.pick(&["put_slice", "extend", "scribble", "resize", "put_bytes", "split_off_unsplit", "reserve_put", "extend_iter", "extend_unhinted", "extend_ref"]);
        let consume = *rng.pick(&["split_to", "split_to", "advance", "advance", "truncate", "copy_to_bytes", "split_to_freeze", "split_to_into_vec", "split_freeze_into_vec"]);
        rounds.push(
            J::obj()
                .set("m", ms[i])
                .set("k", k)
                .set("style", style)
                .set("consume", consume)
                .set("extra_reserve", if rng.chance(1, 4) { rng.range(0, 64) } else { 0 })
                // when a split takes everything that is there: split_to(len) / split() / split_off(0)
                .set("whole", rng.below(3))
                .set("roundtrip", if window == 0 && rng.chance(1, 5) { *rng.pick(&["freeze_try_into_mut", "freeze_from", "clone_drop"]) } else { "none" })
                // park the (possibly empty) recycling handle as Bytes and take it back *before* the refill
                .set("rt_before", if window == 0 && rng.chance(1, 6) { *rng.pick(&["freeze_try_into_mut", "freeze_from"]) } else { "none" }),
        );
    }
    // "exact" family (1 in 10): every message fills the initial capacity to the last byte and is taken
    // out whole - the double equality (len == capacity == request) fast paths like to hang on
    if rng.chance(1, 10) {
        let c = *rng.pick(&[16usize, 64, 1024, 4096]);
        let rounds: Vec<J> = rounds
            .into_iter()
            .map(|r| {
                let mut r = r;
                r.put("m", c);
                r.put("k", c);
                r.put("extra_reserve", 0usize);
                r.put("style", *rng.pick(&["put_slice", "extend", "resize", "put_bytes", "reserve_put"]));
                r.put("consume", *rng.pick(&["copy_to_bytes", "copy_to_bytes", "split_to", "advance", "split_to_freeze"]));
                r
            })
            .collect();
        return J::obj().set("init_cap", c).set("leftover", 0usize).set("window", 0usize).set("period", J::Arr(rounds));
    }
    // "park" family (1 in 10): the handle is emptied without moving its front (truncate to 0)
    // and parked as Bytes / taken back before every refill — the recycling idiom of a pool
    if rng.chance(1, 10) {
        let rounds: Vec<J> = rounds
            .into_iter()
            .map(|r| {
                let m = r.us("m");
                let mut r = r;
                r.put("k", m);
                r.put("consume", "truncate");
                r.put("rt_before", *rng.pick(&["freeze_try_into_mut", "freeze_from"]));
                r.put("roundtrip", "none");
                r
            })
            .collect();
        return J::obj().set("init_cap", *rng.pick(&[0usize, 64, 1024, 4096, 65536])).set("leftover", 0usize).set("window", 0usize).set("period", J::Arr(rounds));
    }
    J::obj()
        .set("init_cap", *rng.pick(&[0usize, 0, 8, 64, 1024, 4096, 8192, 65536]))
        .set("leftover", leftover)
        .set("window", window)
        .set("period", J::Arr(rounds))
}

fn balanced(p: &J) -> bool {
    let per = p.arr("period");
    if per.is_empty() {
        return false;
    }
    let sm: usize = per.iter().map(|r| r.us("m")).sum();
    let sk: usize = per.iter().map(|r| r.us("k")).sum();
    if sm != sk {
        return false;
    }
    // feasibility: never asked to consume more than is there
    let mut len = p.us("leftover");
    for r in per {
        len += r.us("m");
        if r.us("k") > len {
            return false;
        }
        len -= r.us("k");
    }
    true
}

/// Largest peak / ((window+2) * (init_cap + 2*(leftover+max_req) + 64)) seen on the unchanged
/// tree over 2*10^5 patterns (see DESIGN §9 calibration); the alarm bound keeps a 2x margin.
const CALIBRATED_MAX_PM: u64 = 2954;
const LOOSE_BOUND_PM: u64 = 8000;

enum Part {
    M(BytesMut),
    B(Bytes),
    V(Vec<u8>),
}

pub struct Out {
    pub viol: Vec<Violation>,
    pub rounds: u64,
    pub warmup: u64,
    pub converged: bool,
    pub peak: usize,
    pub refill_allocs_after: u64,
    pub sole_reserve_probes: u64,
    pub reclaims: u64,
    /// peak live bytes / ((window+2) * (init_cap + 2*(leftover+max_req) + 64)), in 1/1000
    pub ratio_pm: u64,
}

fn refill_allocs() -> u64 {
    alloc::take_events().iter().filter(|e| e.align == 1 && matches!(e.kind, EvKind::Alloc | EvKind::ReallocMove | EvKind::ReallocInPlace)).count() as u64
}

/// Run one pattern for at most `limit` rounds.
pub fn run_pattern(p: &J, limit: u64, seed: u64) -> Out {
    let mut out = Out { viol: Vec::new(), rounds: 0, warmup: 0, converged: false, peak: 0, refill_allocs_after: 0, sole_reserve_probes: 0, reclaims: 0, ratio_pm: 0 };
    if !balanced(p) {
        return out;
    }
    let per: Vec<J> = p.arr("period").to_vec();
    let window = p.us("window");
    let leftover = p.us("leftover");
    let mut acfg_rng = Rng::new(seed);
    alloc::begin_run(AllocCfg {
        parity: *acfg_rng.pick(&[alloc::Parity::Even, alloc::Parity::Odd, alloc::Parity::Mixed]),
        realloc: *acfg_rng.pick(&[alloc::ReallocMode::Move, alloc::ReallocMode::InPlace, alloc::ReallocMode::Mixed]),
        seed,
        quarantine_cap: 4 << 20,
    });
    let src: Vec<u8> = (0..20000usize).map(|i| (i * 31 + 7) as u8).collect();
    let max_req = per.iter().map(|r| r.us("m") + r.us("extra_reserve")).max().unwrap_or(1);
    // the buffer "wraps" (runs out of room and has to reclaim or reallocate) once per
    // capacity of *front-consumed* bytes; consumption by truncate does not move the front
    let any_front = per.iter().any(|r| r.str("consume") != Some("truncate") && r.us("k") > 0);
    let guard_limit = (64usize << 20) + 1024 * (max_req + leftover);

    let r = catch_unwind(AssertUnwindSafe(|| {
        alloc::track(|| {
            let mut buf = BytesMut::with_capacity(p.us("init_cap").min(1 << 20));
            buf.extend_from_slice(&src[..leftover.min(src.len())]);
            let mut retained: VecDeque<Part> = VecDeque::new();
            let mut retained_bytes = 0usize;
            let mut model_len = buf.len();
            // warm-up state
            let mut peak = alloc::stats().live_bytes;
            let mut max_cap = buf.capacity();
            let mut flowed_since_rise = 0usize;
            let mut rounds_since_rise = 0u64;
            let mut allocs_since_rise = 0u64;
            let mut measuring = false;
            let mut n_warm = 0u64;
            let mut p0 = 0usize;
            let mut refill_after = 0u64;
            let mut end_round = limit;
            let mut round = 0u64;
            let mut peak_quarter = 0usize;
            let mut late_refill_allocs = 0u64;
            while round < end_round {
                let spec = &per[(round % per.len() as u64) as usize];
                let (m, k) = (spec.us("m"), spec.us("k"));
                // ---------------- refill (calls on the recycling handle)
                alloc::clear_events();
                let extra = spec.us("extra_reserve");
                match spec.str("rt_before").unwrap_or("none") {
                    "freeze_try_into_mut" => {
                        let b = std::mem::replace(&mut buf, BytesMut::new()).freeze();
                        buf = match b.try_into_mut() {
                            Ok(m) => m,
                            Err(b) => BytesMut::from(b),
                        };
                    }
                    "freeze_from" => {
                        let b = std::mem::replace(&mut buf, BytesMut::new()).freeze();
                        buf = BytesMut::from(b);
                    }
                    _ => {}
                }
                // (iii) reserve on an empty handle that is alone on a big enough block never allocates
                let mut sole_probe = false;
                // (every style but the unhinted Extend asks for the whole message at once, by reserve
                // or by a call that reserves first; byte-by-byte growth is not "a reserve that is large enough")
                let reserves_whole_message = !(spec.str("style") == Some("extend_unhinted") && m <= 512);
                if buf.is_empty() && retained.is_empty() && reserves_whole_message {
                    if let Some(b) = alloc::lookup(buf.as_ptr() as usize).filter(|b| b.live) {
                        if b.align == 1 && b.size >= m + extra {
                            sole_probe = true;
                        }
                    }
                }
                match spec.str("style").unwrap_or("put_slice") {
                    "extend" => buf.extend_from_slice(&src[..m]),
                    // the Extend impls (byte by byte): exact size hint, no lower bound, by reference;
                    // only for short messages (a 20 000-byte message costs 20 000 calls per round)
                    "extend_iter" if m <= 512 => buf.extend(src[..m].iter().copied()),
                    "extend_unhinted" if m <= 512 => buf.extend(src[..m].iter().copied().filter(|_| true)),
                    "extend_ref" if m <= 512 => buf.extend(src[..m].iter()),
                    "scribble" => {
                        buf.reserve(m + extra);
                        let sp = buf.spare_capacity_mut();
                        for i in 0..m {
                            sp[i].write(src[i]);
                        }
                        let nl = buf.len() + m;
                        unsafe { buf.set_len(nl) };
                    }
                    "resize" => {
                        let nl = buf.len() + m;
                        buf.resize(nl, 0x42);
                    }
                    "put_bytes" => buf.put_bytes(0x17, m),
                    "split_off_unsplit" => {
                        buf.reserve(m + extra);
                        let at = buf.len();
                        let mut tail = buf.split_off(at);
                        tail.extend_from_slice(&src[..m]);
                        buf.unsplit(tail);
                    }
                    "reserve_put" => {
                        buf.reserve(m + extra);
                        buf.put_slice(&src[..m]);
                    }
                    _ => buf.put_slice(&src[..m]),
                }
                match spec.str("roundtrip").unwrap_or("none") {
                    "freeze_try_into_mut" => {
                        let b = std::mem::replace(&mut buf, BytesMut::new()).freeze();
                        buf = match b.try_into_mut() {
                            Ok(m) => m,
                            Err(b) => BytesMut::from(b),
                        };
                    }
                    "freeze_from" => {
                        let b = std::mem::replace(&mut buf, BytesMut::new()).freeze();
                        buf = BytesMut::from(b);
                    }
                    "clone_drop" => {
                        let b = std::mem::replace(&mut buf, BytesMut::new()).freeze();
                        let c = b.clone();
                        drop(c);
                        buf = BytesMut::from(b);
                    }
                    _ => {}
                }
                let ra = refill_allocs();
                model_len += m;
                if sole_probe {
                    out.sole_reserve_probes += 1;
                    if ra > 0 {
                        out.viol.push(Violation {
                            props: vec!["C18", "C08"],
                            kind: "sole-empty-handle-reserve-allocated".into(),
                            detail: format!("round {}: refill of {} bytes on an empty handle that is alone on a block large enough made {} byte-buffer allocation(s)", round, m + extra, ra),
                            step: round as usize,
                        });
                        break;
                    }
                }
                if buf.capacity() > max_cap {
                    max_cap = buf.capacity();
                }
                // ---------------- consume
                alloc::clear_events();
                match spec.str("consume").unwrap_or("split_to") {
                    "advance" => buf.advance(k),
                    "truncate" => {
                        let nl = buf.len() - k;
                        buf.truncate(nl);
                    }
                    "copy_to_bytes" => {
                        let part = buf.copy_to_bytes(k);
                        retained_bytes += k;
                        retained.push_back(Part::B(part));
                    }
                    "split_to_freeze" => {
                        let part = buf.split_to(k).freeze();
                        retained_bytes += k;
                        retained.push_back(Part::B(part));
                    }
                    "split_to_into_vec" => {
                        // the consumer takes the part as a Vec<u8>
                        let part: Vec<u8> = Vec::from(buf.split_to(k));
                        retained_bytes += k;
                        retained.push_back(Part::V(part));
                    }
                    "split_freeze_into_vec" => {
                        let part: Vec<u8> = Vec::from(buf.split_to(k).freeze());
                        retained_bytes += k;
                        retained.push_back(Part::V(part));
                    }
                    _ => {
                        let part = if k == buf.len() && k > 0 {
                            match spec.us("whole") {
                                1 => buf.split(),
                                2 => buf.split_off(0),
                                _ => buf.split_to(k),
                            }
                        } else {
                            buf.split_to(k)
                        };
                        retained_bytes += k;
                        retained.push_back(Part::M(part));
                    }
                }
                model_len -= k;
                while retained.len() > window {
                    match retained.pop_front() {
                        Some(Part::M(x)) => retained_bytes -= x.len(),
                        Some(Part::B(x)) => retained_bytes -= x.len(),
                        Some(Part::V(x)) => retained_bytes -= x.len(),
                        None => {}
                    }
                }
                alloc::clear_events();
                if buf.len() != model_len {
                    out.viol.push(Violation { props: vec!["C01", "C18"], kind: "length-drift".into(), detail: format!("round {}: len {} but {} expected", round, buf.len(), model_len), step: round as usize });
                    break;
                }
                // ---------------- accounting
                let st = alloc::stats();
                round += 1;
                out.rounds = round;
                if round > limit / 2 {
                    late_refill_allocs += ra;
                }
                if st.live_bytes > guard_limit {
                    out.viol.push(Violation {
                        props: vec!["C18"],
                        kind: "memory-grows-without-bound".into(),
                        detail: format!("round {}: {} live bytes (largest request {}, leftover {}, retention window {})", round, st.live_bytes, max_req, leftover, window),
                        step: round as usize,
                    });
                    break;
                }
                if !measuring {
                    let rose = st.peak_live_bytes > peak;
                    if rose {
                        peak = st.peak_live_bytes;
                    }
                    if rose || (window == 0 && ra > 0) {
                        flowed_since_rise = 0;
                        allocs_since_rise = 0;
                        rounds_since_rise = 0;
                    } else {
                        rounds_since_rise += 1;
                        let front = spec.str("consume") != Some("truncate");
                        flowed_since_rise += if !any_front { m } else if front { k } else { 0 };
                        allocs_since_rise += ra;
                    }
                    if round == limit / 4 {
                        peak_quarter = peak;
                    }
                    // ... and the quiet stretch must span whole periods (every phase of the retention
                    // window has been seen at least three times)
                    if flowed_since_rise >= 8 * (max_cap + retained_bytes + max_req) && rounds_since_rise >= per.len() as u64 * 3 + window as u64 {
                        measuring = true;
                        out.converged = true;
                        n_warm = round;
                        out.warmup = round;
                        p0 = peak;
                        alloc::reset_peak();
                        end_round = (round + 100 * round).min(limit);
                    }
                } else {
                    refill_after += ra;
                    if window == 0 && ra > 0 {
                        out.viol.push(Violation {
                            props: vec!["C18"],
                            kind: "allocation-after-warm-up".into(),
                            detail: format!(
                                "round {} (warm-up ended at {}): refilling {} bytes allocated a byte buffer although every split-off part was dropped before (capacity {}, len {})",
                                round,
                                n_warm,
                                m,
                                buf.capacity(),
                                buf.len()
                            ),
                            step: round as usize,
                        });
                        break;
                    }
                    // With a retention window the peak at a wrap depends on which parts happen to be
                    // retained at that moment; the wrap phase drifts against the pattern period, so a
                    // later wrap may legitimately exceed the warm-up peak by up to the retained parts
                    // plus one request. (Unbounded growth exceeds any such constant.)
                    let tol = if window == 0 { 0 } else { (window + 1) * max_req };
                    if st.peak_live_bytes > p0 + tol {
                        out.viol.push(Violation {
                            props: vec!["C18"],
                            kind: "peak-memory-rose-after-warm-up".into(),
                            detail: format!("round {} (warm-up ended at {} with peak {}): peak live bytes now {}", round, n_warm, p0, st.peak_live_bytes),
                            step: round as usize,
                        });
                        break;
                    }
                }
            }
            out.peak = peak.max(alloc::stats().peak_live_bytes).max(p0);
            let bound_unit = (window + 2) * (p.us("init_cap").min(1 << 20) + 2 * (leftover + max_req) + 64);
            out.ratio_pm = (out.peak as u64 * 1000) / bound_unit as u64;
            if out.viol.is_empty() && out.ratio_pm > LOOSE_BOUND_PM {
                out.viol.push(Violation {
                    props: vec!["C18"],
                    kind: "peak-memory-beyond-any-bounded-implementation".into(),
                    detail: format!(
                        "after {} rounds peak live bytes {} = {:.1} x (window+2) x (initial capacity + 2 x (leftover + largest request)); calibrated maximum on the unchanged tree is {:.1}",
                        out.rounds,
                        out.peak,
                        out.ratio_pm as f64 / 1000.0,
                        CALIBRATED_MAX_PM as f64 / 1000.0
                    ),
                    step: out.rounds as usize,
                });
            }
            out.refill_allocs_after = refill_after;
            if !measuring && out.viol.is_empty() && out.rounds >= limit && window == 0 && limit >= 2000 && late_refill_allocs * 4 >= limit / 2 {
                // every split-off part is dropped before the next refill, yet the refill calls keep
                // allocating at least every fourth round in the second half of the history: no
                // implementation that recycles does that (a legitimate allocation at least doubles
                // the room and is followed by a whole buffer's worth of allocation-free rounds)
                out.viol.push(Violation {
                    props: vec!["C18"],
                    kind: "allocations-keep-occurring".into(),
                    detail: format!("{} byte-buffer allocations inside refill calls during the last {} rounds although every split-off part was dropped before the next refill", late_refill_allocs, limit / 2),
                    step: limit as usize,
                });
            }
            if !measuring && out.viol.is_empty() && out.rounds >= limit {
                // never settled: only a clear upward trend is reported
                if peak_quarter > 0 && peak >= 4 * peak_quarter && peak > 8 * (max_req + leftover + 64) {
                    out.viol.push(Violation {
                        props: vec!["C18"],
                        kind: "no-convergence-memory-keeps-growing".into(),
                        detail: format!("after {} rounds memory never settled: peak {} at 1/4 of the run, {} at the end", limit, peak_quarter, peak),
                        step: limit as usize,
                    });
                }
            }
            drop(retained);
            drop(buf);
        })
    }));
    if let Err(pn) = r {
        out.viol.push(Violation { props: vec!["C18", "C01"], kind: "unexpected-panic".into(), detail: rt::panic_message(&*pn), step: out.rounds as usize });
    }
    for m in alloc::take_violations() {
        out.viol.push(Violation { props: vec!["C02"], kind: format!("alloc:{}", m.split(':').next().unwrap_or("")), detail: m, step: out.rounds as usize });
    }
    out
}

pub fn batch(seed: u64, tag: u64, from: u64, to: u64, args: &[String], journal: &mut Journal) {
    let limit: u64 = arg(args, "--steps").and_then(|s| s.parse().ok()).unwrap_or(20000);
    let out = std::io::stdout();
    let (mut rounds, mut conv, mut viol_runs, mut probes, mut warm_max) = (0u64, 0u64, 0u64, 0u64, 0u64);
    let mut ratio_max = 0u64;
    let mut hashes: Vec<J> = Vec::new();
    let mut samples: Vec<J> = Vec::new();
    for i in from..to {
        let run_seed = mix(&[seed, tag, i]);
        let mut rng = Rng::new(run_seed);
        let p = gen_pattern(&mut rng);
        journal.reset(&J::obj().set("run", i).set("seed", run_seed).set("profile", "recycle").set("cfg", J::obj()).set("pattern", p.clone()).dump());
        let r = run_pattern(&p, limit, run_seed);
        rounds += r.rounds;
        if r.converged {
            conv += 1;
        }
        probes += r.sole_reserve_probes;
        warm_max = warm_max.max(r.warmup);
        ratio_max = ratio_max.max(r.ratio_pm);
        hashes.push(J::from(rt::fnv(p.dump().as_bytes())));
        if samples.len() < 2 && r.converged {
            samples.push(J::obj().set("run", i).set("pattern", p.clone()).set("warmup_rounds", r.warmup).set("rounds", r.rounds).set("peak_live_bytes", r.peak));
        }
        if !r.viol.is_empty() {
            viol_runs += 1;
            let rec = J::obj()
                .set("type", "violation")
                .set("engine", "seq")
                .set("profile", "recycle")
                .set("run", i)
                .set("seed", run_seed)
                .set("cfg", J::obj())
                .set("pattern", p.clone())
                .set("limit", limit)
                .set("ops", J::Arr(p.arr("period").to_vec()))
                .set("violations", J::Arr(r.viol.iter().map(|v| v.to_json()).collect()));
            let _ = writeln!(out.lock(), "{}", rec.dump());
        }
    }
    let sum = J::obj()
        .set("type", "summary")
        .set("runs", to - from)
        .set("steps", rounds)
        .set("viol_runs", viol_runs)
        .set("oob_steps", 0u64)
        .set("panics", 0u64)
        .set("x_converged", conv)
        .set("x_sole_reserve_probes", probes)
        .set("x_max_warmup_rounds", warm_max)
        .set("y_ratio_max_pm", ratio_max)
        .set("probes", J::obj())
        .set("alloc", J::obj())
        .set("nontrivial", J::Arr(hashes))
        .set("state_sample", J::Arr(vec![]))
        .set("samples", J::Arr(samples));
    let _ = writeln!(out.lock(), "{}", sum.dump());
}

pub fn replay(rec: &J) -> i32 {
    let mut p = rec.get("pattern").cloned().unwrap_or(J::obj());
    // the minimiser edits "ops" (= the period list)
    if let Some(J::Arr(ops)) = rec.get("ops") {
        p.put("period", J::Arr(ops.clone()));
    }
    let limit = rec.u64("limit").max(100);
    let r = run_pattern(&p, limit, rec.u64("seed"));
    let o = J::obj().set("type", "replay").set("steps", r.rounds).set("violations", J::Arr(r.viol.iter().map(|v| v.to_json()).collect()));
    println!("{}", o.dump());
    if r.viol.is_empty() {
        0
    } else {
        1
    }
}
