//! Operation generator and executor of the handle-world simulator.
//!
//! Operations are concrete JSON objects ({"op":..,"i":uid,"h":handle,...}); handles
//! are named `uid*4+k` after the operation that created them, so deleting other
//! steps during minimisation never renames a handle (a step that names a vanished
//! handle is skipped).

use std::panic::{catch_unwind, AssertUnwindSafe};
use std::sync::atomic::{AtomicUsize, Ordering};
use std::sync::Arc;

use bytes::{Buf, BufMut, Bytes, BytesMut};
use rt::alloc::{self, EvKind, Event};
use rt::{Fnv, Rng, J};

use crate::world::*;

pub const IMAX: usize = isize::MAX as usize;
/// in-contract requests above this are never generated (a buffer of that size proves nothing
/// more and 16 workers doubling it would exhaust the sandbox); replayed ones are skipped
pub const BIG: usize = 8 << 20;

// ------------------------------------------------------------------ configuration

#[derive(Clone, Debug)]
pub struct RunCfg {
    pub steps: usize,
    pub max_live: usize,
    /// per-mille of steps that carry an out-of-contract argument
    pub oob_pm: u32,
    pub big_sizes: bool,
    pub weights: Vec<u32>,
    pub parity: alloc::Parity,
    pub realloc: alloc::ReallocMode,
    pub alloc_seed: u64,
    pub drop_reverse: bool,
}

pub const OPS: &[&str] = &[
    /* 0 */ "b_new",
    /* 1 */ "b_static",
    /* 2 */ "b_from_vec",
    /* 3 */ "b_from_box",
    /* 4 */ "b_from_string",
    /* 5 */ "b_copy",
    /* 6 */ "b_from_iter",
    /* 7 */ "b_owner",
    /* 8 */ "m_new",
    /* 9 */ "m_with_cap",
    /* 10 */ "m_zeroed",
    /* 11 */ "m_from_slice",
    /* 12 */ "m_from_iter",
    /* 13 */ "v_new",
    /* 14 */ "clone",
    /* 15 */ "slice",
    /* 16 */ "slice_ref",
    /* 17 */ "b_split_off",
    /* 18 */ "b_split_to",
    /* 19 */ "b_truncate",
    /* 20 */ "b_clear",
    /* 21 */ "advance",
    /* 22 */ "copy_to_bytes",
    /* 23 */ "into_iter",
    /* 24 */ "try_into_mut",
    /* 25 */ "b_into_mut",
    /* 26 */ "b_into_vec",
    /* 27 */ "m_into_vec",
    /* 28 */ "v_into_bytes",
    /* 29 */ "freeze",
    /* 30 */ "drop",
    /* 31 */ "m_split_off",
    /* 32 */ "m_split_to",
    /* 33 */ "m_split",
    /* 34 */ "m_truncate",
    /* 35 */ "m_clear",
    /* 36 */ "resize",
    /* 37 */ "reserve",
    /* 38 */ "try_reclaim",
    /* 39 */ "extend_from_slice",
    /* 40 */ "put_int",
    /* 41 */ "put_bytes",
    /* 42 */ "put_buf",
    /* 43 */ "extend",
    /* 44 */ "write_str",
    /* 45 */ "unsplit",
    /* 46 */ "scribble",
    /* 47 */ "m_clone",
    /* 48 */ "cmp",
];

pub fn base_weights(profile: &str) -> Vec<u32> {
    let mut w = vec![
        2, 3, 8, 5, 2, 4, 2, 5, // bytes ctors
        2, 6, 3, 6, 2, 3, // mut ctors, vec
        10, 9, 5, 7, 7, 5, 2, 7, 5, 2, // clone .. into_iter
        5, 5, 5, 4, 4, 7, 9, // conversions, freeze, drop
        8, 8, 5, 4, 2, 4, 8, 6, 6, 3, 3, 4, 3, 2, 6, 6, 2, 2,
    ];
    assert_eq!(w.len(), OPS.len());
    if profile == "mut" || profile == "recycle" {
        for i in 0..8 {
            w[i] = 1;
        }
        for i in 31..48 {
            w[i] *= 2;
        }
        w[37] *= 2;
        w[38] *= 2;
        w[9] *= 2;
    }
    w
}

pub fn draw_cfg(rng: &mut Rng, profile: &str, steps: usize) -> RunCfg {
    let mut w = base_weights(profile);
    // swarm: knock out a random subset of non-constructor operation kinds
    let knock = rng.below(4);
    for _ in 0..knock * 4 {
        let i = 14 + rng.below(OPS.len() - 14);
        if OPS[i] != "drop" {
            w[i] = 0;
        }
    }
    // and boost a few
    for _ in 0..3 {
        let i = rng.below(OPS.len());
        w[i] *= 3;
    }
    let oob_pm = match profile {
        "fault" => *rng.pick(&[100u32, 200, 300]),
        _ => *rng.pick(&[0u32, 0, 10, 30, 60]),
    };
    let parity = *rng.pick(&[alloc::Parity::Even, alloc::Parity::Odd, alloc::Parity::Mixed, alloc::Parity::Mixed, alloc::Parity::Packed]);
    let realloc = *rng.pick(&[alloc::ReallocMode::Move, alloc::ReallocMode::InPlace, alloc::ReallocMode::Mixed]);
    RunCfg {
        steps: if steps <= 8 { steps } else { rng.range(steps / 4, steps) },
        max_live: rng.range(2, 8),
        oob_pm,
        big_sizes: rng.chance(1, 10),
        weights: w,
        parity,
        realloc,
        alloc_seed: rng.next_u64(),
        drop_reverse: rng.chance(1, 4),
    }
}

pub fn cfg_to_json(c: &RunCfg) -> J {
    J::obj()
        .set("steps", c.steps)
        .set("max_live", c.max_live)
        .set("oob_pm", c.oob_pm)
        .set("big_sizes", c.big_sizes)
        .set(
            "parity",
            match c.parity {
                alloc::Parity::Even => "even",
                alloc::Parity::Odd => "odd",
                alloc::Parity::Mixed => "mixed",
                alloc::Parity::Packed => "packed",
            },
        )
        .set(
            "realloc",
            match c.realloc {
                alloc::ReallocMode::Move => "move",
                alloc::ReallocMode::InPlace => "inplace",
                alloc::ReallocMode::Mixed => "mixed",
            },
        )
        .set("alloc_seed", c.alloc_seed)
        .set("drop_reverse", c.drop_reverse)
}

pub fn parity_from(s: &str) -> alloc::Parity {
    match s {
        "odd" => alloc::Parity::Odd,
        "mixed" => alloc::Parity::Mixed,
        "packed" => alloc::Parity::Packed,
        _ => alloc::Parity::Even,
    }
}
pub fn realloc_from(s: &str) -> alloc::ReallocMode {
    match s {
        "inplace" => alloc::ReallocMode::InPlace,
        "mixed" => alloc::ReallocMode::Mixed,
        _ => alloc::ReallocMode::Move,
    }
}

// ------------------------------------------------------------------ generator

const SIZES: &[usize] = &[0, 1, 2, 3, 7, 8, 9, 15, 16, 17, 31, 32, 33, 63, 64, 65, 127, 128, 129, 255, 256, 1023, 1024, 1025];

pub fn pick_size(rng: &mut Rng, cfg: &RunCfg) -> usize {
    match rng.below(20) {
        0..=9 => *rng.pick(&SIZES[..14]),
        10..=13 => *rng.pick(SIZES),
        14..=17 => rng.range(0, 80),
        18 => rng.range(0, 4200),
        _ => {
            if cfg.big_sizes && cfg!(miri) {
                // the interpreter spends seconds per megabyte touched
                *rng.pick(&[4096usize, 4097, 65535, 65536, 65537, 70000])
            } else if cfg.big_sizes {
                // past the thresholds a size-dependent policy could hang on (page, 64 KiB = the largest
                // remembered original capacity, 1 MiB), still far below the 8 MiB cap
                *rng.pick(&[4096usize, 4097, 65535, 65536, 65537, 70000, 131072, 140000, 1 << 20, (1 << 20) + 1, 1_200_000, 2 << 20, 2_500_000])
            } else {
                rng.range(0, 300)
            }
        }
    }
}

/// An index argument relative to (len, cap): in contract unless `oob`.
fn pick_index(rng: &mut Rng, len: usize, cap: usize, oob: bool) -> usize {
    if oob {
        let c = [
            len + 1,
            cap + 1,
            cap.wrapping_add(2),
            len.wrapping_mul(2).wrapping_add(1),
            usize::MAX,
            usize::MAX - 1,
            IMAX,
            IMAX + 1,
            IMAX + len,
            usize::MAX - len,
        ];
        return *rng.pick(&c);
    }
    match rng.below(10) {
        0 => 0,
        1 => 1.min(len),
        2 => len,
        3 => len.saturating_sub(1),
        4 => len / 2,
        _ => rng.range(0, len),
    }
}

pub struct Gen<'a> {
    pub rng: &'a mut Rng,
    pub cfg: &'a RunCfg,
    /// scripted prefix (a scenario that random choice would need many specific steps to reach)
    pub script: &'a mut Vec<J>,
}

/// Scenario prefixes: a run may start with a short scripted history that sets up a
/// configuration random choice reaches too rarely, and continues randomly from there.
/// Handles are named after the step that creates them (step k -> handle 4k).
pub fn draw_script(rng: &mut Rng, cfg: &RunCfg, profile: &str) -> Vec<J> {
    let p = if profile == "mut" { 5 } else { 10 };
    if !rng.chance(1, p) {
        return Vec::new();
    }
    let mut v: Vec<J> = Vec::new();
    match rng.below(4) {
        // a split BytesMut, unique again, whose length is brought back to exactly what it was when
        // the buffer was promoted (stale bookkeeping in the control block), then frozen and converted
        3 => {
            let c = *rng.pick(&[64usize, 200, 1024]);
            let a = rng.range(4, 30);
            let k = if rng.chance(1, 4) { 0 } else { rng.range(1, a - 1) };
            v.push(J::obj().set("op", "m_with_cap").set("n", c));
            v.push(J::obj().set("op", "extend_from_slice").set("h", 0usize).set("seed", rng.next_u64()).set("n", a));
            v.push(J::obj().set("op", "m_split_to").set("h", 0usize).set("at", k));
            v.push(J::obj().set("op", "drop").set("h", 8usize));
            let e = if k > 0 { k } else { rng.range(1, 9) };
            v.push(J::obj().set("op", "extend_from_slice").set("h", 0usize).set("seed", rng.next_u64()).set("n", e));
            v.push(J::obj().set("op", "freeze").set("h", 0usize).set("via", rng.below(2)));
            if k == 0 {
                // the offset is produced on the Bytes side instead
                v.push(J::obj().set("op", "clone").set("h", 20usize));
                v.push(J::obj().set("op", "advance").set("h", 20usize).set("n", e));
                v.push(J::obj().set("op", "drop").set("h", 24usize));
            }
            v.push(J::obj().set("op", *rng.pick(&["b_into_vec", "b_into_vec", "b_into_mut", "try_into_mut"])).set("h", 20usize));
        }
        // two independent buffers, each already split (shared representation), the tail piece of
        // the first directly followed in memory by the head piece of the second (packed placement)
        0 if cfg.parity == alloc::Parity::Packed => {
            let n1 = *rng.pick(&[8usize, 16, 33, 64, 200]);
            let n2 = *rng.pick(&[8usize, 16, 33, 64, 200]);
            v.push(J::obj().set("op", "m_from_slice").set("seed", rng.next_u64()).set("n", n1));
            v.push(J::obj().set("op", "m_from_slice").set("seed", rng.next_u64()).set("n", n2));
            v.push(J::obj().set("op", "m_split_to").set("h", 0usize).set("at", rng.range(1, n1 - 1)));
            v.push(J::obj().set("op", "m_split_off").set("h", 4usize).set("at", rng.range(1, n2 - 1)));
            if rng.chance(1, 2) {
                v.push(J::obj().set("op", "drop").set("h", 8usize));
            }
            v.push(J::obj().set("op", "unsplit").set("h", 0usize).set("o", 4usize));
        }
        // a promoted, again unique Bytes with a front offset, then converted
        1 => {
            let n = *rng.pick(&[3usize, 7, 16, 33, 64, 65, 300, 301, 4096]);
            v.push(J::obj().set("op", if rng.chance(1, 2) { "b_from_box" } else { "b_from_vec" }).set("seed", rng.next_u64()).set("n", n).set("extra", *rng.pick(&[0usize, 0, 9])));
            // the front offset: anywhere, or exactly around the middle / the ends (where "does the
            // rest overlap the consumed part" style conditions flip)
            let any = rng.range(1, n - 1);
            let k = *rng.pick(&[any, n / 2, (n - 1) / 2, (n + 1) / 2, 1, n - 1, n]);
            if rng.chance(1, 2) {
                // promoted (clone) and unique again
                v.push(J::obj().set("op", "clone").set("h", 0usize));
                v.push(J::obj().set("op", "advance").set("h", 0usize).set("n", k));
                v.push(J::obj().set("op", "drop").set("h", 4usize));
            } else {
                // never promoted
                v.push(J::obj().set("op", "advance").set("h", 0usize).set("n", k));
            }
            v.push(J::obj().set("op", *rng.pick(&["try_into_mut", "b_into_mut", "b_into_vec"])).set("h", 0usize));
        }
        // a frozen piece of a split BytesMut emptied in place while a sibling lives, then converted
        _ => {
            let n = *rng.pick(&[16usize, 64, 300]);
            v.push(J::obj().set("op", "m_from_slice").set("seed", rng.next_u64()).set("n", n));
            v.push(J::obj().set("op", "m_split_to").set("h", 0usize).set("at", rng.range(1, n - 1)));
            v.push(J::obj().set("op", "freeze").set("h", 4usize));
            v.push(J::obj().set("op", *rng.pick(&["b_clear", "b_truncate", "advance"])).set("h", 8usize).set("n", if rng.chance(1, 2) { 0usize } else { n }));
            v.push(J::obj().set("op", *rng.pick(&["b_into_mut", "b_into_vec", "try_into_mut"])).set("h", 8usize));
            v.push(J::obj().set("op", "m_clear").set("h", 0usize));
        }
    }
    v
}

impl<'a> Gen<'a> {
    fn ids(&self, w: &World, f: impl Fn(&Slot) -> bool) -> Vec<usize> {
        w.slots.iter().filter(|(_, s)| f(s)).map(|(k, _)| *k).collect()
    }
    fn any(&mut self, v: &[usize]) -> Option<usize> {
        if v.is_empty() {
            None
        } else {
            Some(*self.rng.pick(v))
        }
    }

    pub fn next(&mut self, w: &World, uid: usize) -> J {
        if !self.script.is_empty() {
            return self.script.remove(0).set("i", uid);
        }
        let oob = self.rng.chance(self.cfg.oob_pm, 1000);
        let mut weights = self.cfg.weights.clone();
        if w.slots.len() >= self.cfg.max_live {
            for i in 0..14 {
                weights[i] = 0;
            }
            weights[14] = 1;
            weights[30] *= 3;
        }
        if w.slots.is_empty() {
            for i in 14..OPS.len() {
                weights[i] = 0;
            }
        }
        for _attempt in 0..12 {
            let k = self.rng.weighted(&weights);
            if let Some(op) = self.try_op(w, OPS[k], oob) {
                return op.set("i", uid);
            }
        }
        // fallback: a constructor always applies
        let n = pick_size(self.rng, self.cfg);
        J::obj().set("op", "m_from_slice").set("seed", self.rng.next_u64()).set("n", n).set("i", uid)
    }

    fn try_op(&mut self, w: &World, name: &'static str, oob: bool) -> Option<J> {
        let o = J::obj().set("op", name);
        let bs = self.ids(w, |s| s.is_b());
        let ms = self.ids(w, |s| s.is_m());
        let vs = self.ids(w, |s| s.is_v());
        let rng = &mut *self.rng;
        let cfg = self.cfg;
        Some(match name {
            "b_new" | "m_new" => o.set("via", rng.below(2)),
            "b_static" => {
                let n = pick_size(rng, cfg).min(STATIC_LEN);
                let off = rng.range(0, STATIC_LEN - n);
                o.set("off", off).set("n", n).set("via", rng.below(2))
            }
            "b_from_vec" | "v_new" => {
                let n = pick_size(rng, cfg);
                let extra = if rng.chance(1, 2) { 0 } else { *rng.pick(&[1usize, 2, 7, 16, 100]) };
                o.set("seed", rng.next_u64()).set("n", n).set("extra", extra)
            }
            "b_from_box" | "b_copy" | "b_from_iter" | "m_from_slice" | "m_from_iter" | "b_from_string" => {
                o.set("seed", rng.next_u64()).set("n", pick_size(rng, cfg))
            }
            "b_owner" => {
                let kind = *rng.pick(&["inline", "heap", "heap", "static"]);
                let n = match kind {
                    "inline" => rng.range(0, 24),
                    _ => pick_size(rng, cfg).min(STATIC_LEN),
                };
                let pan = rng.chance(1, 12);
                o.set("kind", kind).set("seed", rng.next_u64()).set("n", n).set("panic", pan).set("drop_panic", !pan && rng.chance(1, 8))
            }
            "m_with_cap" | "m_zeroed" => o.set("n", pick_size(rng, cfg)),
            "clone" => {
                let both = [&bs[..], &ms[..]].concat();
                if both.is_empty() {
                    return None;
                }
                o.set("h", *rng.pick(&both))
            }
            "slice" => {
                let h = *rng.pick(bs.get(..).filter(|v| !v.is_empty())?);
                let len = w.slots[&h].view().len;
                let form = rng.below(7);
                let (a, b) = if oob {
                    match rng.below(5) {
                        0 => (pick_index(rng, len, len, false), pick_index(rng, len, len, true)),
                        1 => {
                            let b = rng.range(0, len);
                            (b + 1 + rng.below(3), b)
                        } // reversed
                        2 => (usize::MAX, usize::MAX),
                        3 => (0, usize::MAX),
                        _ => (pick_index(rng, len, len, true), pick_index(rng, len, len, true)),
                    }
                } else {
                    let a = pick_index(rng, len, len, false);
                    let b = a + pick_index(rng, len - a, len - a, false);
                    // inclusive forms need b < len
                    (a, b)
                };
                o.set("h", h).set("form", form).set("a", a).set("b", b)
            }
            "slice_ref" => {
                let h = *rng.pick(bs.get(..).filter(|v| !v.is_empty())?);
                let all: Vec<usize> = w.slots.keys().copied().collect();
                let src = if rng.chance(3, 4) && !oob {
                    // prefer a handle that shares memory with h: itself or any Bytes
                    if rng.chance(1, 2) {
                        h
                    } else {
                        *rng.pick(&bs)
                    }
                } else {
                    *rng.pick(&all)
                };
                let sl = w.slots[&src].view().len;
                let off = rng.range(0, sl);
                let n = if rng.chance(1, 8) { 0 } else { rng.range(0, sl - off) };
                o.set("h", h).set("src", src).set("off", off).set("n", n)
            }
            "b_split_off" | "b_split_to" | "b_truncate" => {
                let h = *rng.pick(bs.get(..).filter(|v| !v.is_empty())?);
                let len = w.slots[&h].view().len;
                let at = if name == "b_truncate" && rng.chance(1, 6) { len + rng.below(3) } else { pick_index(rng, len, len, oob) };
                o.set("h", h).set(if name == "b_truncate" { "n" } else { "at" }, at)
            }
            "b_clear" => o.set("h", *rng.pick(bs.get(..).filter(|v| !v.is_empty())?)),
            "advance" | "copy_to_bytes" => {
                let both = [&bs[..], &ms[..]].concat();
                let h = *rng.pick(both.get(..).filter(|v| !v.is_empty())?);
                let v = w.slots[&h].view();
                o.set("h", h).set("n", pick_index(rng, v.len, v.cap, oob))
            }
            "into_iter" => {
                let both = [&bs[..], &ms[..]].concat();
                let h = *rng.pick(both.get(..).filter(|v| !v.is_empty())?);
                let len = w.slots[&h].view().len;
                o.set("h", h).set("k", if rng.chance(1, 2) { len } else { rng.range(0, len) })
            }
            "try_into_mut" | "b_into_mut" | "b_into_vec" => o.set("h", *rng.pick(bs.get(..).filter(|v| !v.is_empty())?)),
            "m_into_vec" | "freeze" | "m_split" | "m_clear" | "m_clone" => o.set("h", *rng.pick(ms.get(..).filter(|v| !v.is_empty())?)).set("via", rng.below(2)),
            "v_into_bytes" => o.set("h", *rng.pick(vs.get(..).filter(|v| !v.is_empty())?)),
            "drop" => {
                let all: Vec<usize> = w.slots.keys().copied().collect();
                o.set("h", *rng.pick(all.get(..).filter(|v| !v.is_empty())?))
            }
            "m_split_off" | "m_split_to" | "m_truncate" => {
                let h = *rng.pick(ms.get(..).filter(|v| !v.is_empty())?);
                let v = w.slots[&h].view();
                let at = match name {
                    "m_split_off" => {
                        if rng.chance(1, 3) {
                            pick_index(rng, v.cap, v.cap, oob)
                        } else {
                            pick_index(rng, v.len, v.cap, oob)
                        }
                    }
                    "m_truncate" => {
                        if rng.chance(1, 6) {
                            v.len + rng.below(3)
                        } else {
                            pick_index(rng, v.len, v.cap, oob)
                        }
                    }
                    _ => pick_index(rng, v.len, v.cap, oob),
                };
                o.set("h", h).set(if name == "m_truncate" { "n" } else { "at" }, at)
            }
            "resize" => {
                let h = *rng.pick(ms.get(..).filter(|v| !v.is_empty())?);
                let v = w.slots[&h].view();
                let n = if oob {
                    *rng.pick(&[usize::MAX, usize::MAX - 1, IMAX + 1, IMAX + 2 + v.len, usize::MAX - v.len])
                } else {
                    match rng.below(6) {
                        0 => v.len,
                        1 => v.cap,
                        2 => v.cap + 1,
                        3 => v.len / 2,
                        _ => v.len + pick_size(rng, cfg),
                    }
                };
                o.set("h", h).set("n", n).set("x", rng.below(256))
            }
            "reserve" | "try_reclaim" => {
                let h = *rng.pick(ms.get(..).filter(|v| !v.is_empty())?);
                let v = w.slots[&h].view();
                let spare = v.cap - v.len;
                let blk = World::block_of(v.ptr);
                // a handle alone on its block with a consumed prefix `off` in front of it: the crate can
                // only grow that block, so len + n in (isize::MAX - off, isize::MAX] cannot be satisfied
                // either (the grown Vec would exceed isize::MAX); no allocation is attempted
                let off_band = match (w.sharing(h), blk) {
                    ((Sharing::Alone, _), Some(b)) if v.ptr > b.user && name == "reserve" => Some(v.ptr - b.user),
                    _ => None,
                };
                let mut band = false;
                let n = if oob && off_band.is_some() && rng.chance(1, 3) {
                    let off = off_band.unwrap();
                    let top = IMAX - v.len; // len + top == isize::MAX
                    let mid = top - rng.range(0, off - 1);
                    band = true;
                    *rng.pick(&[top, top - (off - 1), mid, top - (off - 1) / 2])
                } else if oob {
                    // len + n must exceed isize::MAX: the only band where the outcome is defined as "panic"
                    let lo = IMAX - v.len + 1;
                    *rng.pick(&[
                        lo,
                        lo + 1,
                        lo + 7,
                        usize::MAX - v.len,
                        (usize::MAX - v.len).saturating_sub(1).max(lo),
                        usize::MAX,
                        usize::MAX - 1,
                        usize::MAX - 8,
                        usize::MAX - 64,
                        (usize::MAX - v.len).wrapping_add(1).max(lo),
                    ])
                } else {
                    let s = blk.map(|b| b.size).unwrap_or(v.cap);
                    // long histories must not double a buffer at every step
                    let s = if s > (1 << 20) { pick_size(rng, cfg) } else { s };
                    match rng.below(12) {
                        0 => 0,
                        1 => 1,
                        2 => spare,
                        3 => spare + 1,
                        4 => s.saturating_sub(v.len),
                        5 => s.saturating_sub(v.len) + 1,
                        6 => s,
                        7 => s + 1,
                        8 => s.saturating_sub(1),
                        _ => pick_size(rng, cfg),
                    }
                };
                let o = o.set("h", h).set("n", n);
                if band {
                    o.set("band", true)
                } else {
                    o
                }
            }
            "extend_from_slice" => {
                let h = *rng.pick(ms.get(..).filter(|v| !v.is_empty())?);
                // 1 in 3: append exactly what brings the handle back to a length or capacity seen before
                // (on any handle, alive or gone) - stale bookkeeping likes such coincidences
                let len = w.slots[&h].view().len;
                let back: Vec<usize> = w.recent_lens.iter().copied().filter(|&t| t > len && t - len <= 4096).collect();
                let n = if !back.is_empty() && rng.chance(1, 3) { *rng.pick(&back) - len } else { pick_size(rng, cfg) };
                o.set("h", h).set("seed", rng.next_u64()).set("n", n)
            }
            "put_int" => {
                let h = *rng.pick(ms.get(..).filter(|v| !v.is_empty())?);
                o.set("h", h).set("w", *rng.pick(&[1usize, 2, 4, 8, 16])).set("le", rng.chance(1, 2)).set("val", rng.next_u64())
            }
            "put_bytes" => {
                let h = *rng.pick(ms.get(..).filter(|v| !v.is_empty())?);
                let v = w.slots[&h].view();
                let n = if oob { *rng.pick(&[usize::MAX, IMAX + 1, usize::MAX - v.len]) } else { pick_size(rng, cfg) };
                o.set("h", h).set("val", rng.below(256)).set("n", n)
            }
            "put_buf" => {
                let h = *rng.pick(ms.get(..).filter(|v| !v.is_empty())?);
                let kind = *rng.pick(&["slice", "seg", "bytes", "chain", "take"]);
                let mut o = o.set("h", h).set("kind", kind).set("seed", rng.next_u64()).set("n", pick_size(rng, cfg).min(2048));
                if kind == "bytes" {
                    let src = *rng.pick(bs.get(..).filter(|v| !v.is_empty())?);
                    o = o.set("src", src);
                }
                o
            }
            "extend" => {
                let h = *rng.pick(ms.get(..).filter(|v| !v.is_empty())?);
                let kind = *rng.pick(&["u8", "ref", "bytes", "u8", "faulty"]);
                let n = pick_size(rng, cfg).min(600);
                let mut o = o.set("h", h).set("kind", kind).set("seed", rng.next_u64()).set("n", n);
                if kind == "faulty" {
                    // a user iterator that panics at item k and/or misreports its size_hint
                    o = o.set("k", rng.range(0, n)).set("hint", rng.below(4)).set("byref", rng.chance(1, 3));
                }
                o
            }
            "write_str" => {
                let h = *rng.pick(ms.get(..).filter(|v| !v.is_empty())?);
                o.set("h", h).set("seed", rng.next_u64()).set("n", pick_size(rng, cfg).min(300))
            }
            "unsplit" => {
                if ms.len() < 2 {
                    return None;
                }
                let h = *rng.pick(&ms);
                // prefer an adjacent half when there is one
                let hv = w.slots[&h].view();
                let adj: Vec<usize> = ms
                    .iter()
                    .copied()
                    .filter(|&x| x != h && w.slots[&x].view().ptr == hv.ptr + hv.len && w.slots[&x].view().cap > 0)
                    .collect();
                let other = if !adj.is_empty() && rng.chance(3, 4) {
                    *rng.pick(&adj)
                } else {
                    let c: Vec<usize> = ms.iter().copied().filter(|&x| x != h).collect();
                    *rng.pick(&c)
                };
                o.set("h", h).set("o", other)
            }
            "scribble" => {
                let h = *rng.pick(ms.get(..).filter(|v| !v.is_empty())?);
                let v = w.slots[&h].view();
                let mode = rng.below(3);
                let k = if mode == 1 { rng.range(0, (v.cap - v.len).min(512)) } else { 0 };
                o.set("h", h).set("mode", mode).set("k", k).set("pat", rng.below(256))
            }
            "cmp" => {
                let all: Vec<usize> = w.slots.keys().copied().collect();
                if all.is_empty() {
                    return None;
                }
                o.set("h", *rng.pick(&all)).set("o", *rng.pick(&all))
            }
            _ => return None,
        })
    }
}

// ------------------------------------------------------------------ owners

pub enum OwnerData {
    Inline([u8; 24], usize),
    Heap(Vec<u8>),
    Static(&'static [u8]),
}
pub struct SimOwner {
    pub data: OwnerData,
    pub stats: Arc<OwnerStats>,
    pub panic_in_as_ref: bool,
    /// the owner's destructor panics (once, and never while already unwinding)
    pub panic_in_drop: bool,
}
pub const OWNER_DROP_PANIC: &str = "SimOwner: drop told to panic";

/// A panic that is the owner's own destructor panicking in the operation that released it:
/// user code failing, to be survived by the crate like any other.
fn owner_drop_panic(w: &World, origin: Origin, msg: &str) -> bool {
    msg.contains(OWNER_DROP_PANIC) && matches!(origin, Origin::Owner(oi) if w.owners[oi].drop_panics)
}
impl AsRef<[u8]> for SimOwner {
    fn as_ref(&self) -> &[u8] {
        self.stats.as_ref.fetch_add(1, Ordering::SeqCst);
        if self.panic_in_as_ref {
            panic!("SimOwner: as_ref told to panic");
        }
        match &self.data {
            OwnerData::Inline(a, n) => &a[..*n],
            OwnerData::Heap(v) => &v[..],
            OwnerData::Static(s) => s,
        }
    }
}
impl Drop for SimOwner {
    fn drop(&mut self) {
        let before = self.stats.drops.fetch_add(1, Ordering::SeqCst);
        if self.panic_in_drop && before == 0 && !std::thread::panicking() {
            panic!("{}", OWNER_DROP_PANIC);
        }
    }
}

// ------------------------------------------------------------------ honest segmented source

/// An honest `Buf` over segments (the short-read analogue), used as a `put` source.
pub struct SegSrc {
    pub segs: Vec<Vec<u8>>,
    pub i: usize,
    pub off: usize,
}
impl SegSrc {
    pub fn new(data: &[u8], rng: &mut Rng) -> SegSrc {
        let mut segs = Vec::new();
        let mut p = 0;
        while p < data.len() {
            if rng.chance(1, 5) {
                segs.push(Vec::new());
            }
            let n = match rng.below(4) {
                0 => 1,
                1 => rng.range(1, 8),
                _ => rng.range(1, 64),
            }
            .min(data.len() - p);
            segs.push(data[p..p + n].to_vec());
            p += n;
        }
        if rng.chance(1, 3) {
            segs.push(Vec::new());
        }
        let mut s = SegSrc { segs, i: 0, off: 0 };
        s.skip_empty();
        s
    }
    fn skip_empty(&mut self) {
        while self.i < self.segs.len() && self.off >= self.segs[self.i].len() {
            self.i += 1;
            self.off = 0;
        }
    }
}
impl Buf for SegSrc {
    fn remaining(&self) -> usize {
        let mut n = 0;
        for k in self.i..self.segs.len() {
            n += self.segs[k].len();
        }
        n - self.off.min(n)
    }
    fn chunk(&self) -> &[u8] {
        if self.i < self.segs.len() {
            &self.segs[self.i][self.off..]
        } else {
            &[]
        }
    }
    fn advance(&mut self, mut cnt: usize) {
        assert!(cnt <= self.remaining(), "SegSrc: advance past end");
        while cnt > 0 {
            let left = self.segs[self.i].len() - self.off;
            let t = left.min(cnt);
            self.off += t;
            cnt -= t;
            self.skip_empty();
        }
        self.skip_empty();
    }
}

// ------------------------------------------------------------------ executor

#[derive(Clone, Copy, PartialEq, Eq, Debug)]
pub enum Exp {
    Ok,
    Panic,
    Either,
}

pub enum Out<T> {
    Ok(T),
    Panic(String),
}

fn run<T>(f: impl FnOnce() -> T) -> Out<T> {
    match catch_unwind(AssertUnwindSafe(|| alloc::track(f))) {
        Ok(v) => Out::Ok(v),
        Err(p) => {
            let m = rt::panic_message(&*p);
            drop(p);
            Out::Panic(m)
        }
    }
}

pub fn content(seed: u64, n: usize) -> Vec<u8> {
    Rng::new(seed).bytes(n)
}

fn nid(uid: usize, k: usize) -> usize {
    uid * 4 + k
}

fn byte_buffer_allocs(ev: &[Event]) -> usize {
    ev.iter().filter(|e| e.align == 1 && matches!(e.kind, EvKind::Alloc | EvKind::ReallocMove | EvKind::ReallocInPlace)).count()
}
fn any_alloc_events(ev: &[Event]) -> usize {
    ev.iter().filter(|e| matches!(e.kind, EvKind::Alloc | EvKind::ReallocMove | EvKind::ReallocInPlace)).count()
}

pub struct StepOut {
    /// the panic came from a user-supplied iterator: the call may have taken partial effect
    pub partial: bool,
    /// "ok" | "panic" | "skip"
    pub outcome: &'static str,
    pub ret: u64,
    pub scribbled: Option<usize>,
    pub oob: bool,
}

/// Execute one operation on the world, apply it to the model, run the per-op
/// oracles. The global step invariants are run by the caller afterwards.
pub fn exec(w: &mut World, op: &J) -> StepOut {
    let name = op.str("op").unwrap_or("").to_string();
    let uid = op.us("i");
    let h = op.us("h");
    alloc::set_op(uid as u64);
    alloc::clear_events();
    let before = w.views();
    let skip = StepOut { partial: false, outcome: "skip", ret: 0, scribbled: None, oob: false };
    let mut so = StepOut { partial: false, outcome: "ok", ret: 0, scribbled: None, oob: false };

    macro_rules! need {
        ($pred:ident) => {
            match w.slots.get(&h) {
                Some(s) if s.$pred() => {}
                _ => return skip,
            }
        };
    }
    // Outcome bookkeeping shared by all ops
    macro_rules! settle {
        ($out:expr, $exp:expr, $props_ret:expr, $what:expr) => {{
            match (&$out, $exp) {
                (Out::Ok(_), Exp::Panic) => {
                    so.oob = true;
                    w.v($props_ret, "returned-instead-of-panicking", format!("{}: returned although the arguments are out of contract", $what));
                }
                (Out::Panic(m), Exp::Ok) => {
                    w.v(&["C01", "C13"], "unexpected-panic", format!("{}: panicked ({}) although the call is in contract", $what, m));
                }
                _ => {}
            }
            if let Out::Panic(_) = &$out {
                so.outcome = "panic";
                if $exp != Exp::Ok {
                    so.oob = true;
                    w.probes.hit("contract_panic");
                }
            }
        }};
    }

    match name.as_str() {
        // ---------------------------------------------------------- constructors
        "b_new" => {
            let via = op.us("via");
            let b = match run(move || if via == 1 { Bytes::default() } else { Bytes::new() }) {
                Out::Ok(b) => b,
                Out::Panic(m) => {
                    w.v(&["C01"], "unexpected-panic", format!("Bytes::new panicked: {}", m));
                    return so;
                }
            };
            w.slots.insert(nid(uid, 0), Slot { real: Real::B(b), model: vec![], origin: Origin::Static });
        }
        "m_new" => {
            let via = op.us("via");
            if let Out::Ok(m) = run(move || if via == 1 { BytesMut::default() } else { BytesMut::new() }) {
                w.slots.insert(nid(uid, 0), Slot { real: Real::M(m), model: vec![], origin: Origin::Heap });
            }
        }
        "b_static" => {
            let off = op.us("off").min(STATIC_LEN);
            let n = op.us("n").min(STATIC_LEN - off);
            let via = op.us("via");
            let out = run(|| if via == 1 { Bytes::from(&STATIC_DATA[off..off + n]) } else { Bytes::from_static(&STATIC_DATA[off..off + n]) });
            let ev = alloc::take_events();
            if let Out::Ok(b) = out {
                if n > 0 && b.as_ptr() as usize != STATIC_DATA.as_ptr() as usize + off {
                    w.v(&["C07"], "copied:from_static", format!("from_static: result does not point at the static data"));
                }
                if byte_buffer_allocs(&ev) > 0 {
                    w.v(&["C07"], "allocated:from_static", format!("from_static allocated a byte buffer ({} events)", ev.len()));
                }
                w.slots.insert(nid(uid, 0), Slot { real: Real::B(b), model: STATIC_DATA[off..off + n].to_vec(), origin: Origin::Static });
            }
        }
        "b_from_vec" | "v_new" | "b_from_box" | "b_copy" | "b_from_iter" | "b_from_string" | "m_from_slice" | "m_from_iter" => {
            let n = op.us("n").min(1 << 20);
            let extra = op.us("extra").min(1 << 16);
            let mut data = content(op.u64("seed"), n);
            if name == "b_from_string" {
                for x in data.iter_mut() {
                    *x = b' ' + (*x % 95);
                }
            }
            let d2 = data.clone();
            let nm = name.clone();
            let out = run(move || -> Real {
                match nm.as_str() {
                    "b_from_vec" => {
                        let mut v = Vec::with_capacity(n + extra);
                        v.extend_from_slice(&d2);
                        Real::B(Bytes::from(v))
                    }
                    "v_new" => {
                        let mut v = Vec::with_capacity(n + extra);
                        v.extend_from_slice(&d2);
                        Real::V(v)
                    }
                    "b_from_box" => Real::B(Bytes::from(d2.to_vec().into_boxed_slice())),
                    "b_copy" => Real::B(Bytes::copy_from_slice(&d2)),
                    "b_from_iter" => Real::B(d2.iter().copied().collect::<Bytes>()),
                    "b_from_string" => Real::B(Bytes::from(String::from_utf8(d2.to_vec()).unwrap())),
                    "m_from_slice" => Real::M(BytesMut::from(&d2[..])),
                    _ => Real::M(d2.iter().collect::<BytesMut>()),
                }
            });
            match out {
                Out::Ok(r) => {
                    w.slots.insert(nid(uid, 0), Slot { real: r, model: data, origin: Origin::Heap });
                }
                Out::Panic(m) => w.v(&["C01"], "unexpected-panic", format!("{} panicked: {}", name, m)),
            }
        }
        "m_with_cap" | "m_zeroed" => {
            let n = op.us("n").min(1 << 20);
            let z = name == "m_zeroed";
            let out = run(|| if z { BytesMut::zeroed(n) } else { BytesMut::with_capacity(n) });
            match out {
                Out::Ok(m) => {
                    if m.capacity() < n {
                        w.v(&["C04", "C01"], "capacity-too-small", format!("{}({}) has capacity {}", name, n, m.capacity()));
                    }
                    w.slots.insert(nid(uid, 0), Slot { real: Real::M(m), model: if z { vec![0; n] } else { vec![] }, origin: Origin::Heap });
                }
                Out::Panic(m) => w.v(&["C01"], "unexpected-panic", format!("{} panicked: {}", name, m)),
            }
        }
        "b_owner" => {
            let kind = op.str("kind").unwrap_or("heap").to_string();
            let n = op.us("n");
            let pan = op.boolean("panic");
            let dpan = op.boolean("drop_panic") && !pan;
            let stats = Arc::new(OwnerStats { as_ref: AtomicUsize::new(0), drops: AtomicUsize::new(0) });
            let oi = w.owners.len();
            w.owners.push(OwnerRec { stats: stats.clone(), panicked: pan, lying: false, drop_panics: dpan });
            let data = content(op.u64("seed"), n.min(1 << 20));
            let model: Vec<u8> = match kind.as_str() {
                "inline" => data[..n.min(24)].to_vec(),
                "static" => {
                    let n = n.min(STATIC_LEN);
                    let off = (op.u64("seed") as usize) % (STATIC_LEN - n + 1);
                    STATIC_DATA[off..off + n].to_vec()
                }
                _ => data.clone(),
            };
            let seedv = op.u64("seed") as usize;
            let out = run(move || {
                let od = match kind.as_str() {
                    "inline" => {
                        let mut a = [0u8; 24];
                        let k = n.min(24);
                        a[..k].copy_from_slice(&data[..k]);
                        OwnerData::Inline(a, k)
                    }
                    "static" => {
                        let n = n.min(STATIC_LEN);
                        let off = seedv % (STATIC_LEN - n + 1);
                        OwnerData::Static(&STATIC_DATA[off..off + n])
                    }
                    _ => OwnerData::Heap(data.to_vec()),
                };
                Bytes::from_owner(SimOwner { data: od, stats, panic_in_as_ref: pan, panic_in_drop: dpan })
            });
            let ev = alloc::take_events();
            match out {
                Out::Ok(b) => {
                    if pan {
                        w.v(&["C03"], "owner-panic-swallowed", "from_owner returned although as_ref panicked".into());
                    }
                    // heap owner: its own Vec is the one align-1 allocation made by the harness closure
                    let allowed = if op.str("kind") == Some("heap") && !model.is_empty() { 1 } else { 0 };
                    if byte_buffer_allocs(&ev) > allowed {
                        w.v(&["C07"], "allocated:from_owner", format!("from_owner allocated a byte buffer ({} align-1 allocations, {} expected from the owner itself)", byte_buffer_allocs(&ev), allowed));
                    }
                    w.slots.insert(nid(uid, 0), Slot { real: Real::B(b), model, origin: Origin::Owner(oi) });
                }
                Out::Panic(m) => {
                    so.outcome = "panic";
                    w.probes.hit("owner_as_ref_panic");
                    if !pan {
                        w.v(&["C01"], "unexpected-panic", format!("from_owner panicked: {}", m));
                    }
                }
            }
        }

        // ---------------------------------------------------------- Bytes views
        "clone" | "m_clone" => {
            let s = match w.slots.get(&h) {
                Some(s) if !s.is_v() => s,
                _ => return skip,
            };
            let (model, origin, v0) = (s.model.clone(), s.origin, s.view());
            let out = match &s.real {
                Real::B(b) => run(|| Real::B(b.clone())),
                Real::M(m) => run(|| Real::M(m.clone())),
                _ => unreachable!(),
            };
            let ev = alloc::take_events();
            match out {
                Out::Ok(r) => {
                    let is_b = matches!(r, Real::B(_));
                    let ns = Slot { real: r, model, origin: if is_b { origin } else { Origin::Heap } };
                    if is_b {
                        let v1 = ns.view();
                        if v1.len > 0 && v1.ptr != v0.ptr {
                            w.v(&["C07"], "copied:clone", format!("clone of h{}: result at a different address", h));
                        }
                        if byte_buffer_allocs(&ev) > 0 {
                            w.v(&["C07"], "allocated:clone", format!("clone of h{} allocated a byte buffer", h));
                        }
                        if ev.iter().any(|e| e.kind == EvKind::Alloc && e.align > 1) {
                            w.probes.hit("clone_promoted");
                        }
                    }
                    w.slots.insert(nid(uid, 0), ns);
                }
                Out::Panic(m) => w.v(&["C01"], "unexpected-panic", format!("clone of h{} panicked: {}", h, m)),
            }
        }
        "slice" => {
            need!(is_b);
            let s = &w.slots[&h];
            let (len, origin, v0) = (s.model.len(), s.origin, s.view());
            let (form, a, b) = (op.us("form"), op.us("a"), op.us("b"));
            use std::ops::Bound::*;
            let (sb, eb) = match form {
                0 => (Included(a), Excluded(b)),
                1 => (Included(a), Included(b)),
                2 => (Included(a), Unbounded),
                3 => (Unbounded, Excluded(b)),
                4 => (Unbounded, Included(b)),
                5 => (Unbounded, Unbounded),
                _ => (Excluded(a), Excluded(b)),
            };
            let begin = match sb {
                Included(n) => Some(n),
                Excluded(n) => n.checked_add(1),
                Unbounded => Some(0),
            };
            let end = match eb {
                Included(n) => n.checked_add(1),
                Excluded(n) => Some(n),
                Unbounded => Some(len),
            };
            let exp = match (begin, end) {
                (Some(bg), Some(en)) if bg <= en && en <= len => Exp::Ok,
                _ => Exp::Panic,
            };
            let out = match &s.real {
                Real::B(x) => run(|| x.slice((sb, eb))),
                _ => unreachable!(),
            };
            let ev = alloc::take_events();
            settle!(out, exp, &["C13"], format!("h{}.slice(form {}, {}, {}) on len {}", h, form, a, b, len));
            if let Out::Ok(r) = out {
                if exp == Exp::Ok {
                    let (bg, en) = (begin.unwrap(), end.unwrap());
                    let model = w.slots[&h].model[bg..en].to_vec();
                    if r.len() > 0 && r.len() == en - bg && r.as_ptr() as usize != v0.ptr + bg {
                        w.v(&["C07"], "copied:slice", format!("h{}.slice({}..{}): result is not at source address + {}", h, bg, en, bg));
                    }
                    if byte_buffer_allocs(&ev) > 0 {
                        w.v(&["C07"], "allocated:slice", format!("h{}.slice({}..{}) allocated a byte buffer", h, bg, en));
                    }
                    w.slots.insert(nid(uid, 0), Slot { real: Real::B(r), model, origin });
                } else {
                    std::mem::forget(r);
                }
            }
        }
        "slice_ref" => {
            need!(is_b);
            let src = op.us("src");
            let (off, n) = (op.us("off"), op.us("n"));
            let ss = match w.slots.get(&src) {
                Some(s) => s,
                None => return skip,
            };
            // the harness only reads through a view that passed the previous step's range check
            let sub: &[u8] = match &ss.real {
                Real::B(x) => &x[..],
                Real::M(x) => &x[..],
                Real::V(x) => &x[..],
            };
            if off > sub.len() || n > sub.len() - off {
                return skip;
            }
            let sub = &sub[off..off + n];
            let s = &w.slots[&h];
            let (v0, origin) = (s.view(), s.origin);
            let sp = sub.as_ptr() as usize;
            let inside = sp >= v0.ptr && sp + n <= v0.ptr + v0.len;
            let exp = if n == 0 {
                Exp::Ok
            } else if inside {
                Exp::Ok
            } else {
                Exp::Panic
            };
            let expect_bytes = sub.to_vec();
            let out = match &s.real {
                Real::B(x) => run(|| x.slice_ref(sub)),
                _ => unreachable!(),
            };
            let ev = alloc::take_events();
            settle!(out, exp, &["C13"], format!("h{}.slice_ref(h{}[{}..{}])", h, src, off, off + n));
            if let Out::Ok(r) = out {
                if exp == Exp::Ok {
                    if n > 0 && r.len() == n && r.as_ptr() as usize != sp {
                        w.v(&["C07"], "copied:slice_ref", format!("h{}.slice_ref: result does not start at the subset's address", h));
                    }
                    if byte_buffer_allocs(&ev) > 0 {
                        w.v(&["C07"], "allocated:slice_ref", format!("h{}.slice_ref allocated a byte buffer", h));
                    }
                    if n > 0 && src != h {
                        w.probes.hit("slice_ref_via_other_handle");
                    }
                    w.slots.insert(nid(uid, 0), Slot { real: Real::B(r), model: expect_bytes, origin });
                } else {
                    std::mem::forget(r);
                }
            }
        }
        "b_split_off" | "b_split_to" => {
            need!(is_b);
            let at = op.us("at");
            let mut s = w.slots.remove(&h).unwrap();
            let len = s.model.len();
            let v0 = s.view();
            let exp = if at <= len { Exp::Ok } else { Exp::Panic };
            let off = name == "b_split_off";
            let out = match &mut s.real {
                Real::B(x) => run(|| if off { x.split_off(at) } else { x.split_to(at) }),
                _ => unreachable!(),
            };
            let ev = alloc::take_events();
            settle!(out, exp, &["C13"], format!("h{}.{}({}) on len {}", h, name, at, len));
            let origin = s.origin;
            if let Out::Ok(r) = out {
                if exp == Exp::Ok {
                    let tail = s.model.split_off(at);
                    let (self_model, ret_model) = if off { (s.model.clone(), tail) } else { (tail, s.model.clone()) };
                    s.model = self_model;
                    let v1 = s.view();
                    let rp = r.as_ptr() as usize;
                    let (want_self, want_ret) = if off { (v0.ptr, v0.ptr + at) } else { (v0.ptr + at, v0.ptr) };
                    if v1.ptr != want_self || rp != want_ret {
                        w.v(
                            &["C07"],
                            if off { "address:split_off" } else { "address:split_to" },
                            format!(
                                "h{}.{}({}) on len {}: self moved by {} (expected {}), result at offset {} (expected {})",
                                h,
                                name,
                                at,
                                len,
                                v1.ptr as isize - v0.ptr as isize,
                                want_self - v0.ptr,
                                rp as isize - v0.ptr as isize,
                                want_ret - v0.ptr
                            ),
                        );
                    }
                    if byte_buffer_allocs(&ev) > 0 {
                        w.v(&["C07"], "allocated:split", format!("h{}.{}({}) allocated a byte buffer", h, name, at));
                    }
                    w.slots.insert(nid(uid, 0), Slot { real: Real::B(r), model: ret_model, origin });
                } else {
                    std::mem::forget(r);
                }
            }
            w.slots.insert(h, s);
        }
        "b_truncate" | "b_clear" => {
            need!(is_b);
            let n = if name == "b_clear" { 0 } else { op.us("n") };
            let mut s = w.slots.remove(&h).unwrap();
            let v0 = s.view();
            let clear = name == "b_clear";
            let out = match &mut s.real {
                Real::B(x) => run(|| if clear { x.clear() } else { x.truncate(n) }),
                _ => unreachable!(),
            };
            let ev = alloc::take_events();
            settle!(out, Exp::Ok, &["C13"], format!("h{}.{}({})", h, name, n));
            if let Out::Ok(()) = out {
                if n < s.model.len() {
                    s.model.truncate(n);
                }
                let v1 = s.view();
                if v1.len > 0 && v1.ptr != v0.ptr {
                    w.v(&["C07"], "address:truncate", format!("h{}.{}({}) moved the handle", h, name, n));
                }
                if byte_buffer_allocs(&ev) > 0 {
                    w.v(&["C07"], "allocated:truncate", format!("h{}.{}({}) allocated a byte buffer", h, name, n));
                }
            }
            w.slots.insert(h, s);
        }
        "advance" => {
            let mut s = match w.slots.remove(&h) {
                Some(s) if !s.is_v() => s,
                Some(s) => {
                    w.slots.insert(h, s);
                    return skip;
                }
                None => return skip,
            };
            let n = op.us("n");
            let len = s.model.len();
            let v0 = s.view();
            let exp = if n <= len { Exp::Ok } else { Exp::Panic };
            let out = match &mut s.real {
                Real::B(x) => run(|| x.advance(n)),
                Real::M(x) => run(|| x.advance(n)),
                _ => unreachable!(),
            };
            let ev = alloc::take_events();
            settle!(out, exp, &["C13"], format!("h{}.advance({}) on len {}", h, n, len));
            if let Out::Ok(()) = out {
                if exp == Exp::Ok {
                    s.model.drain(..n);
                    let v1 = s.view();
                    if v1.len > 0 && v1.ptr != v0.ptr + n {
                        w.v(&["C07"], "address:advance", format!("h{}.advance({}): address moved by {}", h, n, v1.ptr as isize - v0.ptr as isize));
                    }
                    if byte_buffer_allocs(&ev) > 0 {
                        w.v(&["C07"], "allocated:advance", format!("h{}.advance({}) allocated a byte buffer", h, n));
                    }
                }
            }
            w.slots.insert(h, s);
        }
        "copy_to_bytes" => {
            let mut s = match w.slots.remove(&h) {
                Some(s) if !s.is_v() => s,
                Some(s) => {
                    w.slots.insert(h, s);
                    return skip;
                }
                None => return skip,
            };
            let n = op.us("n");
            let len = s.model.len();
            let v0 = s.view();
            let exp = if n <= len { Exp::Ok } else { Exp::Panic };
            let out = match &mut s.real {
                Real::B(x) => run(|| x.copy_to_bytes(n)),
                Real::M(x) => run(|| x.copy_to_bytes(n)),
                _ => unreachable!(),
            };
            settle!(out, exp, &["C13"], format!("h{}.copy_to_bytes({}) on len {}", h, n, len));
            if let Out::Ok(r) = out {
                if exp == Exp::Ok {
                    let tail = s.model.split_off(n);
                    let head = std::mem::replace(&mut s.model, tail);
                    // copy_to_bytes may share or copy (it is not in C07's list): the result keeps
                    // the source's lineage only if it still points at the source's bytes
                    let shares = r.len() > 0 && r.as_ptr() as usize == v0.ptr;
                    let origin = if s.is_b() && (shares || r.is_empty()) { s.origin } else { Origin::Heap };
                    w.slots.insert(nid(uid, 0), Slot { real: Real::B(r), model: head, origin });
                } else {
                    std::mem::forget(r);
                }
            }
            w.slots.insert(h, s);
        }
        "into_iter" => {
            let s = match w.slots.remove(&h) {
                Some(s) if !s.is_v() => s,
                Some(s) => {
                    w.slots.insert(h, s);
                    return skip;
                }
                None => return skip,
            };
            let k = op.us("k").min(s.model.len());
            let len = s.model.len();
            let out = match s.real {
                Real::B(x) => run(move || {
                    let mut it = x.into_iter();
                    let hint = it.size_hint();
                    let mut got = Vec::new();
                    for _ in 0..k {
                        if let Some(b) = it.next() {
                            got.push(b);
                        }
                    }
                    let hint2 = it.size_hint();
                    drop(it);
                    (hint, got, hint2)
                }),
                Real::M(x) => run(move || {
                    let mut it = x.into_iter();
                    let hint = it.size_hint();
                    let mut got = Vec::new();
                    for _ in 0..k {
                        if let Some(b) = it.next() {
                            got.push(b);
                        }
                    }
                    let hint2 = it.size_hint();
                    drop(it);
                    (hint, got, hint2)
                }),
                _ => unreachable!(),
            };
            match out {
                Out::Ok((hint, got, hint2)) => {
                    if got[..] != s.model[..k] {
                        w.v(&["C01"], "value-mismatch:into_iter", format!("h{}.into_iter(): first {} items: {}", h, k, diff(&got, &s.model[..k])));
                    }
                    if hint != (len, Some(len)) || hint2 != (len - k, Some(len - k)) {
                        w.v(&["C01"], "size_hint:into_iter", format!("h{}.into_iter(): size_hint {:?} then {:?}, len {} k {}", h, hint, hint2, len, k));
                    }
                }
                Out::Panic(m) if owner_drop_panic(w, s.origin, &m) => {
                    so.outcome = "panic-in-owner-drop";
                    w.probes.hit("owner_drop_panic");
                }
                Out::Panic(m) => w.v(&["C01"], "unexpected-panic", format!("h{}.into_iter() panicked: {}", h, m)),
            }
        }
        "try_into_mut" | "b_into_mut" => {
            need!(is_b);
            let (sh0, blk0) = w.sharing(h);
            let s = w.slots.remove(&h).unwrap();
            let v0 = s.view();
            let (model, origin) = (s.model, s.origin);
            let b = match s.real {
                Real::B(b) => b,
                _ => unreachable!(),
            };
            let uniq = b.is_unique();
            let try_ = name == "try_into_mut";
            let out = run(move || if try_ { b.try_into_mut() } else { Ok(BytesMut::from(b)) });
            let ev = alloc::take_events();
            match out {
                Out::Ok(Ok(m)) => {
                    so.ret = 1;
                    if try_ && !uniq {
                        w.v(&["C08"], "try_into_mut-ok-but-not-unique", format!("h{}.try_into_mut() succeeded although is_unique() was false", h));
                    }
                    if uniq {
                        w.probes.hit("into_mut_unique");
                        if m.as_ptr() as usize != v0.ptr && v0.len > 0 {
                            w.v(&["C07", "C08"], "copied:into_mut", format!("h{} -> BytesMut of a unique buffer moved the bytes", h));
                        }
                        if byte_buffer_allocs(&ev) > 0 {
                            w.v(&["C07", "C08"], "allocated:into_mut", format!("h{} -> BytesMut of a unique buffer allocated a byte buffer", h));
                        }
                        // "returns the same memory": the sole owner's allocation goes to the BytesMut (which
                        // can take all of it back later), it is not released by the conversion
                        if let (Sharing::Alone, Some(b0)) = (sh0, blk0) {
                            if b0.align == 1 && !alloc::lookup(b0.user).map(|b| b.live && b.id == b0.id).unwrap_or(false) {
                                w.v(&["C08"], "into_mut-released-unique-buffer", format!("h{} (unique, {} bytes at +{} of block#{} of size {}) -> BytesMut: the allocation was released instead of handed over", h, v0.len, v0.ptr - b0.user, b0.id, b0.size));
                            }
                        }
                    } else {
                        w.probes.hit("into_mut_copy");
                    }
                    w.slots.insert(nid(uid, 0), Slot { real: Real::M(m), model, origin: Origin::Heap });
                }
                Out::Ok(Err(b)) => {
                    if uniq {
                        w.v(&["C08"], "try_into_mut-err-but-unique", format!("h{}.try_into_mut() failed although is_unique() was true", h));
                    }
                    w.slots.insert(h, Slot { real: Real::B(b), model, origin });
                }
                Out::Panic(m) if owner_drop_panic(w, origin, &m) => {
                    // the conversion copied the bytes out and released the owner, whose destructor panicked
                    so.outcome = "panic-in-owner-drop";
                    w.probes.hit("owner_drop_panic");
                }
                Out::Panic(m) => w.v(&["C01"], "unexpected-panic", format!("h{}.{} panicked: {}", h, name, m)),
            }
        }
        "b_into_vec" | "m_into_vec" => {
            let s = match w.slots.remove(&h) {
                Some(s) if (name == "b_into_vec" && s.is_b()) || (name == "m_into_vec" && s.is_m()) => s,
                Some(s) => {
                    w.slots.insert(h, s);
                    return skip;
                }
                None => return skip,
            };
            let model = s.model;
            let origin = s.origin;
            let out = match s.real {
                Real::B(b) => run(move || Vec::from(b)),
                Real::M(m) => run(move || Vec::from(m)),
                _ => unreachable!(),
            };
            let ev = alloc::take_events();
            match out {
                Out::Ok(v) => {
                    if byte_buffer_allocs(&ev) > 0 {
                        w.probes.hit("into_vec_copy");
                    } else {
                        w.probes.hit("into_vec_reuse");
                    }
                    if v[..] != model[..] {
                        w.v(&["C01"], "value-mismatch:into_vec", format!("Vec::from(h{}): {}", h, diff(&v, &model)));
                        std::mem::forget(v);
                    } else {
                        w.slots.insert(nid(uid, 0), Slot { real: Real::V(v), model, origin: Origin::Heap });
                    }
                }
                Out::Panic(m) if owner_drop_panic(w, origin, &m) => {
                    so.outcome = "panic-in-owner-drop";
                    w.probes.hit("owner_drop_panic");
                }
                Out::Panic(m) => w.v(&["C01"], "unexpected-panic", format!("Vec::from(h{}) panicked: {}", h, m)),
            }
        }
        "v_into_bytes" => {
            need!(is_v);
            let s = w.slots.remove(&h).unwrap();
            let model = s.model;
            let v = match s.real {
                Real::V(v) => v,
                _ => unreachable!(),
            };
            match run(move || Bytes::from(v)) {
                Out::Ok(b) => {
                    w.slots.insert(nid(uid, 0), Slot { real: Real::B(b), model, origin: Origin::Heap });
                }
                Out::Panic(m) => w.v(&["C01"], "unexpected-panic", format!("Bytes::from(Vec h{}) panicked: {}", h, m)),
            }
        }
        "freeze" => {
            need!(is_m);
            let s = w.slots.remove(&h).unwrap();
            let v0 = s.view();
            let model = s.model;
            let m = match s.real {
                Real::M(m) => m,
                _ => unreachable!(),
            };
            let via = op.us("via");
            let out = run(move || if via == 1 { Bytes::from(m) } else { m.freeze() });
            let ev = alloc::take_events();
            match out {
                Out::Ok(b) => {
                    if b.len() > 0 && b.as_ptr() as usize != v0.ptr {
                        w.v(&["C07"], "copied:freeze", format!("h{}.freeze() moved the bytes", h));
                    }
                    if byte_buffer_allocs(&ev) > 0 {
                        w.v(&["C07"], "allocated:freeze", format!("h{}.freeze() allocated a byte buffer", h));
                    }
                    w.slots.insert(nid(uid, 0), Slot { real: Real::B(b), model, origin: Origin::Heap });
                }
                Out::Panic(m) => w.v(&["C01"], "unexpected-panic", format!("h{}.freeze() panicked: {}", h, m)),
            }
        }
        "drop" => {
            let s = match w.slots.remove(&h) {
                Some(s) => s,
                None => return skip,
            };
            let origin = s.origin;
            if let Out::Panic(m) = run(move || drop(s)) {
                if owner_drop_panic(w, origin, &m) {
                    so.outcome = "panic-in-owner-drop";
                    w.probes.hit("owner_drop_panic");
                } else {
                    w.v(&["C01", "C03"], "unexpected-panic", format!("drop(h{}) panicked: {}", h, m));
                }
            }
        }

        // ---------------------------------------------------------- BytesMut
        "m_split_off" | "m_split_to" | "m_split" => {
            need!(is_m);
            let mut s = w.slots.remove(&h).unwrap();
            let v0 = s.view();
            let at = if name == "m_split" { v0.len } else { op.us("at") };
            let exp = match name.as_str() {
                "m_split_off" => {
                    if at <= v0.cap {
                        Exp::Ok
                    } else {
                        Exp::Panic
                    }
                }
                _ => {
                    if at <= v0.len {
                        Exp::Ok
                    } else {
                        Exp::Panic
                    }
                }
            };
            let nm = name.clone();
            let out = match &mut s.real {
                Real::M(x) => run(|| match nm.as_str() {
                    "m_split_off" => x.split_off(at),
                    "m_split_to" => x.split_to(at),
                    _ => x.split(),
                }),
                _ => unreachable!(),
            };
            let ev = alloc::take_events();
            settle!(out, exp, &["C13", "C04"], format!("h{}.{}({}) on len {} cap {}", h, name, at, v0.len, v0.cap));
            if let Out::Ok(r) = out {
                if exp == Exp::Ok {
                    let (rp, rl, rc) = (r.as_ptr() as usize, r.len(), r.capacity());
                    let v1 = s.view();
                    let ret_model;
                    if name == "m_split_off" {
                        ret_model = if at < s.model.len() { s.model.split_off(at) } else { vec![] };
                        if v1.ptr != v0.ptr || rp != v0.ptr + at {
                            w.v(&["C07"], "address:m_split_off", format!("h{}.split_off({}): self moved by {}, result at offset {}", h, at, v1.ptr as isize - v0.ptr as isize, rp as isize - v0.ptr as isize));
                        }
                        // (C04: the two regions must not overlap nor reach beyond the region that was split;
                        // smaller capacities would be allowed)
                        if v1.cap > at || rc > v0.cap - at {
                            w.v(&["C04"], "capacity:m_split_off", format!("h{}.split_off({}) on capacity {}: self.capacity() = {}, other.capacity() = {}", h, at, v0.cap, v1.cap, rc));
                        }
                    } else {
                        let tail = s.model.split_off(at);
                        ret_model = std::mem::replace(&mut s.model, tail);
                        if v1.ptr != v0.ptr + at || rp != v0.ptr {
                            w.v(&["C07"], "address:m_split_to", format!("h{}.{}({}): self moved by {}, result at offset {}", h, name, at, v1.ptr as isize - v0.ptr as isize, rp as isize - v0.ptr as isize));
                        }
                        if name == "m_split" && v1.cap > v0.cap - v0.len {
                            w.v(&["C04"], "capacity:m_split", format!("h{}.split(): capacity {} len {} -> self.capacity() {}", h, v0.cap, v0.len, v1.cap));
                        }
                    }
                    let _ = rl;
                    if byte_buffer_allocs(&ev) > 0 {
                        w.v(&["C07"], "allocated:m_split", format!("h{}.{}({}) allocated a byte buffer", h, name, at));
                    }
                    w.slots.insert(nid(uid, 0), Slot { real: Real::M(r), model: ret_model, origin: Origin::Heap });
                } else {
                    std::mem::forget(r);
                }
            }
            w.slots.insert(h, s);
        }
        "m_truncate" | "m_clear" => {
            need!(is_m);
            let n = if name == "m_clear" { 0 } else { op.us("n") };
            let mut s = w.slots.remove(&h).unwrap();
            let v0 = s.view();
            let clear = name == "m_clear";
            let out = match &mut s.real {
                Real::M(x) => run(|| if clear { x.clear() } else { x.truncate(n) }),
                _ => unreachable!(),
            };
            let ev = alloc::take_events();
            settle!(out, Exp::Ok, &["C13"], format!("h{}.{}({})", h, name, n));
            if let Out::Ok(()) = out {
                if n <= s.model.len() {
                    s.model.truncate(n);
                }
                let v1 = s.view();
                // C07 promises the address for a non-empty result only; no property fixes the capacity
                // after truncate / clear (an emptied handle may, e.g., rewind to the start of its block)
                if v1.len > 0 && v1.ptr != v0.ptr {
                    w.v(&["C07", "C04"], "address:m_truncate", format!("h{}.{}({}): ptr moved by {}, capacity {} -> {}", h, name, n, v1.ptr as isize - v0.ptr as isize, v0.cap, v1.cap));
                }
                if byte_buffer_allocs(&ev) > 0 {
                    w.v(&["C07"], "allocated:m_truncate", format!("h{}.{}({}) allocated a byte buffer", h, name, n));
                }
            }
            w.slots.insert(h, s);
        }
        "resize" => {
            need!(is_m);
            let (n, x) = (op.us("n"), op.us("x") as u8);
            let mut s = w.slots.remove(&h).unwrap();
            let v0 = s.view();
            let exp = if n <= v0.len || n <= v0.cap {
                Exp::Ok
            } else if n > IMAX {
                Exp::Panic
            } else if n > BIG {
                // never generated; a replayed/shrunk value may land here
                w.slots.insert(h, s);
                return skip;
            } else {
                Exp::Ok
            };
            let out = match &mut s.real {
                Real::M(m) => run(|| m.resize(n, x)),
                _ => unreachable!(),
            };
            settle!(out, exp, &["C13", "C04"], format!("h{}.resize({}, {}) on len {} cap {}", h, n, x, v0.len, v0.cap));
            if let (Out::Ok(()), Exp::Ok) = (&out, exp) {
                s.model.resize(n, x);
            }
            w.slots.insert(h, s);
        }
        "reserve" | "try_reclaim" => {
            need!(is_m);
            let n = op.us("n");
            let (sh, blk) = w.sharing(h);
            let mut s = w.slots.remove(&h).unwrap();
            let v0 = s.view();
            let spare = v0.cap - v0.len;
            let unrepresentable = v0.len.checked_add(n).map(|t| t > IMAX).unwrap_or(true);
            // alone on its block behind a consumed prefix `off`: growing that block to off + len + n
            // bytes is not representable either, and nothing is allocated before that is noticed
            // (decided when the operation was generated and carried in the op: the address-based
            // classification may be ambiguous under another placement, the ownership is not)
            let beyond_block = !unrepresentable && op.boolean("band") && n > spare;
            if !unrepresentable && !beyond_block && n > spare && v0.len.saturating_add(n) > BIG {
                w.slots.insert(h, s);
                return skip;
            }
            if beyond_block {
                w.probes.hit("reserve_beyond_block_band");
            }
            let sole_empty = v0.len == 0 && sh == Sharing::Alone && blk.map(|b| b.align == 1 && n <= b.size).unwrap_or(false);
            let is_reserve = name == "reserve";
            let exp = if n <= spare {
                Exp::Ok
            } else if unrepresentable || beyond_block {
                if is_reserve {
                    Exp::Panic
                } else {
                    Exp::Either
                }
            } else {
                Exp::Ok
            };
            let out = match &mut s.real {
                Real::M(m) => run(|| if is_reserve { m.reserve(n); true } else { m.try_reclaim(n) }),
                _ => unreachable!(),
            };
            let ev = alloc::take_events();
            settle!(out, exp, &["C04", "C13"], format!("h{}.{}({}) on len {} cap {}", h, name, n, v0.len, v0.cap));
            if let Out::Ok(ret) = out {
                so.ret = ret as u64;
                let v1 = s.view();
                if ret {
                    if v1.len != v0.len {
                        w.v(&["C04", "C01"], "reserve-changed-len", format!("h{}.{}({}): len {} -> {}", h, name, n, v0.len, v1.len));
                    }
                    if v1.cap < v1.len || v1.cap - v1.len < n {
                        w.v(&["C04"], "reserve-promise-broken", format!("h{}.{}({}) returned{} but capacity()-len() = {} - {} < {}", h, name, n, if is_reserve { "" } else { " true" }, v1.cap, v1.len, n));
                    }
                    if !is_reserve && any_alloc_events(&ev) > 0 {
                        w.v(&["C04"], "try_reclaim-allocated", format!("h{}.try_reclaim({}) returned true but allocated ({} allocator events)", h, n, ev.len()));
                    }
                    if v1.ptr != v0.ptr {
                        w.probes.hit("reserve_moved");
                    } else if v1.cap != v0.cap {
                        w.probes.hit("reserve_grew_in_place");
                    }
                    if any_alloc_events(&ev) == 0 && v1.cap != v0.cap {
                        w.probes.hit("reserve_reclaimed");
                    }
                } else {
                    if v1 != v0 {
                        w.v(&["C04"], "try_reclaim-false-changed-state", format!("h{}.try_reclaim({}) returned false but (ptr,len,cap) changed: len {}->{}, cap {}->{}, moved {}", h, n, v0.len, v1.len, v0.cap, v1.cap, v1.ptr as isize - v0.ptr as isize));
                    }
                    if n <= spare {
                        w.v(&["C04"], "try_reclaim-false-with-spare", format!("h{}.try_reclaim({}) returned false with {} spare", h, n, spare));
                    }
                }
                if sole_empty {
                    w.probes.hit("sole_empty_owner_probe");
                    if !ret {
                        w.v(&["C08", "C18"], "sole-owner-cannot-reclaim", format!("h{} is empty and the only handle on block of size {}, but try_reclaim({}) returned false", h, blk.unwrap().size, n));
                    } else if any_alloc_events(&ev) > 0 {
                        w.v(&["C08", "C18"], "sole-owner-reserve-allocated", format!("h{} is empty and the only handle on block of size {}, but {}({}) allocated", h, blk.unwrap().size, name, n));
                    }
                }
            }
            w.slots.insert(h, s);
        }
        "extend" if op.str("kind") == Some("faulty") => {
            // Extend<u8> / Extend<&u8> with a user iterator that panics at item k and/or lies in
            // size_hint. The call may legitimately have appended any prefix of the items before the
            // panic escapes; the handle must stay a valid, in-bounds handle (checked by the step
            // invariants) and storage must still balance at the end.
            need!(is_m);
            let n = op.us("n").min(1 << 16);
            let k = op.us("k").min(n);
            let items = content(op.u64("seed"), n);
            let hint = match op.us("hint") {
                0 => (n, Some(n)),
                1 => (n / 2, Some(n / 2)),
                2 => (0, None),
                _ => (n + 7, Some(n + 7)),
            };
            struct Faulty {
                items: Vec<u8>,
                pos: usize,
                k: usize,
                hint: (usize, Option<usize>),
            }
            impl Iterator for Faulty {
                type Item = u8;
                fn next(&mut self) -> Option<u8> {
                    if self.pos == self.k && self.k < self.items.len() {
                        panic!("Faulty iterator: told to panic at item {}", self.k);
                    }
                    let r = self.items.get(self.pos).copied();
                    self.pos += 1;
                    r
                }
                fn size_hint(&self) -> (usize, Option<usize>) {
                    self.hint
                }
            }
            let mut s = w.slots.remove(&h).unwrap();
            let v0 = s.view();
            let will_panic = k < n;
            let it = Faulty { items: items.clone(), pos: 0, k, hint };
            let byref = op.boolean("byref");
            let out = match &mut s.real {
                Real::M(m) => run(|| {
                    if byref {
                        // the &u8 flavour forwards to the u8 one
                        let tmp: Vec<u8> = it.items[..it.k.min(it.items.len())].to_vec();
                        m.extend(tmp.iter());
                        if it.k < it.items.len() {
                            panic!("Faulty iterator: told to panic at item {}", it.k);
                        }
                    } else {
                        m.extend(it)
                    }
                }),
                _ => unreachable!(),
            };
            w.probes.hit("faulty_iterator");
            match out {
                Out::Ok(()) => {
                    if will_panic {
                        w.v(&["C01"], "iterator-panic-swallowed", format!("h{}.extend(faulty iterator): returned although the iterator panicked at item {}", h, k));
                    }
                    s.model.extend_from_slice(&items);
                }
                Out::Panic(_) => {
                    so.outcome = "panic";
                    so.partial = true;
                    w.probes.hit("iterator_panic");
                    // accept any prefix of the items; the range check comes first
                    let v1 = s.view();
                    let blk_ok = v1.cap == 0 || alloc::lookup(v1.ptr).map(|b| b.live && v1.ptr + v1.cap <= b.user + b.size).unwrap_or(!alloc::ENABLED);
                    if blk_ok && v1.len >= v0.len && v1.len <= v0.len + k && v1.len <= v1.cap {
                        let got: Vec<u8> = match &s.real {
                            Real::M(m) => m[..].to_vec(),
                            _ => unreachable!(),
                        };
                        let j = v1.len - v0.len;
                        if got[..v0.len] == s.model[..] && got[v0.len..] == items[..j] {
                            s.model.extend_from_slice(&items[..j]);
                        }
                    }
                    // otherwise the step invariants report the broken handle
                }
            }
            w.slots.insert(h, s);
        }
        "extend_from_slice" | "put_int" | "put_bytes" | "put_buf" | "extend" | "write_str" => {
            need!(is_m);
            // what gets appended
            let n = op.us("n");
            let mut exp = Exp::Ok;
            let v0 = w.slots[&h].view();
            let mut app: Vec<u8> = Vec::new();
            let mut src_bytes: Option<Bytes> = None;
            let mut seg_rng = Rng::new(op.u64("seed") ^ 0x5e65);
            match name.as_str() {
                "extend_from_slice" | "extend" | "put_buf" => {
                    if name == "put_buf" && op.str("kind") == Some("bytes") {
                        let src = op.us("src");
                        match w.slots.get(&src) {
                            Some(Slot { real: Real::B(b), model, .. }) => {
                                app = model.clone();
                                src_bytes = Some(alloc::track(|| b.clone()));
                            }
                            _ => return skip,
                        }
                    } else {
                        app = content(op.u64("seed"), n.min(1 << 20));
                    }
                }
                "write_str" => {
                    app = content(op.u64("seed"), n.min(1 << 16));
                    for x in app.iter_mut() {
                        *x = b' ' + (*x % 95);
                    }
                }
                "put_int" => {
                    let wd = op.us("w");
                    let val = op.u64("val");
                    let wide = ((val as u128) << 64) | (val as u128 ^ 0x9e3779b97f4a7c15);
                    let le = op.boolean("le");
                    app = match (wd, le) {
                        (1, _) => vec![val as u8],
                        (2, false) => (val as u16).to_be_bytes().to_vec(),
                        (2, true) => (val as u16).to_le_bytes().to_vec(),
                        (4, false) => (val as u32).to_be_bytes().to_vec(),
                        (4, true) => (val as u32).to_le_bytes().to_vec(),
                        (8, false) => val.to_be_bytes().to_vec(),
                        (8, true) => val.to_le_bytes().to_vec(),
                        (_, false) => wide.to_be_bytes().to_vec(),
                        (_, true) => wide.to_le_bytes().to_vec(),
                    };
                }
                "put_bytes" => {
                    if v0.len.checked_add(n).map(|t| t > IMAX).unwrap_or(true) {
                        exp = Exp::Panic;
                    } else if v0.len.saturating_add(n) > BIG {
                        return skip;
                    } else {
                        app = vec![op.us("val") as u8; n];
                    }
                }
                _ => {}
            }
            let mut s = w.slots.remove(&h).unwrap();
            let nm = name.clone();
            let opc = op.clone();
            let app2 = app.clone();
            let out = match &mut s.real {
                Real::M(m) => run(|| match nm.as_str() {
                    "extend_from_slice" => m.extend_from_slice(&app2),
                    "put_bytes" => m.put_bytes(opc.us("val") as u8, n),
                    "write_str" => {
                        use std::fmt::Write;
                        let st = std::str::from_utf8(&app2).unwrap();
                        if opc.u64("seed") & 1 == 0 {
                            m.write_str(st).unwrap()
                        } else {
                            write!(m, "{}", st).unwrap()
                        }
                    }
                    "put_int" => {
                        let val = opc.u64("val");
                        let wide = ((val as u128) << 64) | (val as u128 ^ 0x9e3779b97f4a7c15);
                        match (opc.us("w"), opc.boolean("le")) {
                            (1, _) => m.put_u8(val as u8),
                            (2, false) => m.put_u16(val as u16),
                            (2, true) => m.put_u16_le(val as u16),
                            (4, false) => m.put_u32(val as u32),
                            (4, true) => m.put_u32_le(val as u32),
                            (8, false) => m.put_u64(val),
                            (8, true) => m.put_u64_le(val),
                            (_, false) => m.put_u128(wide),
                            (_, true) => m.put_u128_le(wide),
                        }
                    }
                    "extend" => match opc.str("kind") {
                        Some("u8") => m.extend(app2.iter().copied()),
                        Some("ref") => m.extend(app2.iter()),
                        _ => {
                            let mut parts: Vec<Bytes> = Vec::new();
                            let mut p = 0;
                            while p < app2.len() {
                                let k = seg_rng.range(1, 40).min(app2.len() - p);
                                parts.push(Bytes::copy_from_slice(&app2[p..p + k]));
                                p += k;
                            }
                            m.extend(parts)
                        }
                    },
                    _ => match opc.str("kind") {
                        Some("slice") => m.put(&app2[..]),
                        Some("bytes") => m.put(src_bytes.take().unwrap()),
                        Some("chain") => {
                            let cut = seg_rng.range(0, app2.len());
                            m.put((&app2[..cut]).chain(SegSrc::new(&app2[cut..], &mut seg_rng)))
                        }
                        Some("take") => {
                            let mut longer = app2.clone();
                            longer.extend_from_slice(b"beyond-the-limit");
                            m.put(SegSrc::new(&longer, &mut seg_rng).take(app2.len()))
                        }
                        _ => m.put(SegSrc::new(&app2, &mut seg_rng)),
                    },
                }),
                _ => unreachable!(),
            };
            settle!(out, exp, &["C13", "C04"], format!("h{}.{}(.. {} bytes) on len {} cap {}", h, name, n, v0.len, v0.cap));
            if let (Out::Ok(()), Exp::Ok) = (&out, exp) {
                s.model.extend_from_slice(&app);
            }
            w.slots.insert(h, s);
        }
        "unsplit" => {
            need!(is_m);
            let o = op.us("o");
            if o == h {
                return skip;
            }
            match w.slots.get(&o) {
                Some(s) if s.is_m() => {}
                _ => return skip,
            }
            let mut s = w.slots.remove(&h).unwrap();
            let os = w.slots.remove(&o).unwrap();
            let (v0, vo) = (s.view(), os.view());
            let om = match os.real {
                Real::M(m) => m,
                _ => unreachable!(),
            };
            let adjacent = v0.ptr + v0.len == vo.ptr && vo.cap > 0 && v0.cap > 0 && World::block_of(v0.ptr).map(|b| b.id) == World::block_of(vo.ptr).map(|b| b.id) && World::block_of(v0.ptr).is_some();
            let out = match &mut s.real {
                Real::M(m) => run(|| m.unsplit(om)),
                _ => unreachable!(),
            };
            let ev = alloc::take_events();
            settle!(out, Exp::Ok, &["C13"], format!("h{}.unsplit(h{})", h, o));
            if let Out::Ok(()) = out {
                let v1 = s.view();
                if v0.len == 0 {
                    w.probes.hit("unsplit_into_empty");
                    if vo.len > 0 && v1.ptr != vo.ptr {
                        w.v(&["C07"], "copied:unsplit-empty-self", format!("h{}.unsplit(h{}) with empty self moved the bytes", h, o));
                    }
                    if byte_buffer_allocs(&ev) > 0 {
                        w.v(&["C07"], "allocated:unsplit-empty-self", format!("h{}.unsplit(h{}) with empty self allocated a byte buffer", h, o));
                    }
                } else if adjacent {
                    w.probes.hit("unsplit_adjacent");
                    if v1.ptr != v0.ptr {
                        w.v(&["C07"], "copied:unsplit-adjacent", format!("h{}.unsplit(h{}) of adjacent halves moved the bytes", h, o));
                    }
                    if byte_buffer_allocs(&ev) > 0 {
                        w.v(&["C07"], "allocated:unsplit-adjacent", format!("h{}.unsplit(h{}) of adjacent halves allocated a byte buffer", h, o));
                    }
                } else {
                    w.probes.hit("unsplit_copy");
                }
                s.model.extend_from_slice(&os.model);
            }
            w.slots.insert(h, s);
        }
        "scribble" => {
            need!(is_m);
            let (mode, k, pat) = (op.us("mode"), op.us("k"), op.us("pat") as u8);
            let mut s = w.slots.remove(&h).unwrap();
            let v0 = s.view();
            // Only write through a region that passed the range check of the previous step.
            let ok_region = !alloc::ENABLED || v0.cap == 0 || alloc::lookup(v0.ptr).map(|b| b.live && v0.ptr + v0.cap <= b.user + b.size).unwrap_or(false);
            if !ok_region {
                w.slots.insert(h, s);
                return skip;
            }
            let k = k.min(v0.cap - v0.len);
            let out = match &mut s.real {
                Real::M(m) => run(|| {
                    match mode {
                        2 => {
                            // every way to the initialised bytes as a mutable slice
                            let sl: &mut [u8] = match pat % 3 {
                                0 => m.as_mut(),
                                1 => &mut m[..],
                                _ => std::borrow::BorrowMut::borrow_mut(m),
                            };
                            for (i, b) in sl.iter_mut().enumerate() {
                                *b = pat ^ (i as u8);
                            }
                            0
                        }
                        _ => {
                            let spare = m.spare_capacity_mut();
                            let sl = spare.len();
                            for (i, b) in spare.iter_mut().enumerate() {
                                b.write(pat ^ (i as u8));
                            }
                            if mode == 1 {
                                let nl = m.len() + k;
                                unsafe { m.set_len(nl) };
                            }
                            sl
                        }
                    }
                }),
                _ => unreachable!(),
            };
            so.scribbled = Some(h);
            w.probes.hit("scribble");
            match out {
                Out::Ok(sl) => {
                    if mode == 2 {
                        for (i, b) in s.model.iter_mut().enumerate() {
                            *b = pat ^ (i as u8);
                        }
                    } else {
                        if sl != v0.cap - v0.len {
                            w.v(&["C04"], "spare-capacity-len", format!("h{}.spare_capacity_mut().len() = {} but capacity()-len() = {}", h, sl, v0.cap - v0.len));
                        }
                        if mode == 1 {
                            for i in 0..k {
                                s.model.push(pat ^ (i as u8));
                            }
                        }
                    }
                }
                Out::Panic(m) => w.v(&["C01"], "unexpected-panic", format!("scribble on h{} panicked: {}", h, m)),
            }
            w.slots.insert(h, s);
        }
        "cmp" => {
            // Eq/Ord/Hash against the model as a by-product (not claimed for C14)
            let o = op.us("o");
            let (a, b) = match (w.slots.get(&h), w.slots.get(&o)) {
                (Some(a), Some(b)) => (a, b),
                _ => return skip,
            };
            let want = a.model == b.model;
            let got = match (&a.real, &b.real) {
                (Real::B(x), Real::B(y)) => x == y,
                (Real::B(x), Real::M(y)) => x == y,
                (Real::M(x), Real::B(y)) => x == y,
                (Real::M(x), Real::M(y)) => x == y,
                (Real::B(x), Real::V(y)) => x == y,
                (Real::M(x), Real::V(y)) => x == y,
                (Real::V(x), Real::B(y)) => x == y,
                (Real::V(x), Real::M(y)) => x == y,
                (Real::V(x), Real::V(y)) => x == y,
            };
            so.ret = got as u64;
            if want != got {
                w.v(&["C01"], "eq-mismatch", format!("h{} == h{} is {}, models say {}", h, o, got, want));
            }
        }
        _ => return skip,
    }

    // C13: after a panic every handle is exactly as before
    if so.outcome == "panic" && !so.partial {
        let after = w.views();
        for (id, v) in &before {
            match after.get(id) {
                Some(a) if a == v => {}
                Some(a) => {
                    w.v(
                        &["C13"],
                        "state-changed-by-panicking-call",
                        format!("{}: the call panicked but handle h{} changed: len {} -> {}, capacity {} -> {}, address moved by {}", name, id, v.len, a.len, v.cap, a.cap, a.ptr as isize - v.ptr as isize),
                    );
                }
                None => {
                    if name != "b_owner" {
                        w.v(&["C13"], "handle-lost-by-panicking-call", format!("{}: the call panicked and handle h{} is gone", name, id));
                    }
                }
            }
        }
    }
    so
}

/// Per-step outcome digest for C16 (no addresses).
pub fn digest_step(w: &World, op: &J, so: &StepOut, f: &mut Fnv) {
    f.str(op.str("op").unwrap_or(""));
    f.str(so.outcome);
    f.u64(so.ret);
    for (id, s) in &w.slots {
        let v = s.view();
        f.u64(*id as u64);
        f.u64(v.kind as u64);
        f.u64(v.len as u64);
        if v.kind == 1 {
            f.u64(v.cap as u64);
        }
        // contents as seen through the handle were compared to the model by the
        // invariants; hash the model so a crashed comparison cannot poison the digest
        f.u64(rt::fnv(&s.model));
        if let Real::B(b) = &s.real {
            f.u64(b.is_unique() as u64);
        }
    }
}
