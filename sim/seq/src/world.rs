//! The handle world: slots (real value + value model), the allocator-ledger
//! cross-checks, and the step invariants shared by C01–C04, C07, C08, C13.

use std::collections::BTreeMap;
use std::sync::atomic::{AtomicUsize, Ordering};
use std::sync::Arc;

use bytes::{Buf, Bytes, BytesMut};
use rt::alloc::{self, BlockInfo};
use rt::Violation;

pub const STATIC_LEN: usize = 8192;
const fn make_static() -> [u8; STATIC_LEN] {
    let mut a = [0u8; STATIC_LEN];
    let mut x: u32 = 0x1234_5678;
    let mut i = 0;
    while i < STATIC_LEN {
        x = x.wrapping_mul(1664525).wrapping_add(1013904223);
        a[i] = (x >> 24) as u8;
        i += 1;
    }
    a
}
pub static STATIC_DATA: [u8; STATIC_LEN] = make_static();

pub enum Real {
    B(Bytes),
    M(BytesMut),
    V(Vec<u8>),
}

#[derive(Clone, Copy, PartialEq, Eq, Debug)]
pub enum Origin {
    Heap,
    Static,
    Owner(usize),
}

pub struct Slot {
    pub real: Real,
    pub model: Vec<u8>,
    pub origin: Origin,
}

/// Counters of an instrumented `from_owner` owner.
pub struct OwnerStats {
    pub as_ref: AtomicUsize,
    pub drops: AtomicUsize,
}
pub struct OwnerRec {
    pub stats: Arc<OwnerStats>,
    /// as_ref was told to panic
    pub panicked: bool,
    pub lying: bool,
    /// the owner's destructor was told to panic
    pub drop_panics: bool,
}

#[derive(Clone, Copy, Debug, PartialEq, Eq)]
pub struct View {
    pub ptr: usize,
    pub len: usize,
    pub cap: usize, // == len for Bytes; capacity for BytesMut and Vec
    pub kind: u8,   // 0 Bytes 1 BytesMut 2 Vec
}

impl Slot {
    pub fn view(&self) -> View {
        match &self.real {
            Real::B(b) => View { ptr: b.as_ptr() as usize, len: b.len(), cap: b.len(), kind: 0 },
            Real::M(m) => View { ptr: m.as_ptr() as usize, len: m.len(), cap: m.capacity(), kind: 1 },
            Real::V(v) => View { ptr: v.as_ptr() as usize, len: v.len(), cap: v.capacity(), kind: 2 },
        }
    }
    pub fn is_b(&self) -> bool {
        matches!(self.real, Real::B(_))
    }
    pub fn is_m(&self) -> bool {
        matches!(self.real, Real::M(_))
    }
    pub fn is_v(&self) -> bool {
        matches!(self.real, Real::V(_))
    }
}

#[derive(Clone, Copy, PartialEq, Eq, Debug)]
pub enum Sharing {
    /// no live tracked block under this handle (static, owner-inline, empty-without-block)
    NoBlock,
    /// another slot has a non-empty region inside the same block
    Shared,
    /// no other slot of any length points into the block
    Alone,
    /// only empty neighbours: they may or may not hold a reference
    Unknown,
}

#[derive(Default, Clone)]
pub struct Probes {
    pub m: BTreeMap<&'static str, u64>,
}
impl Probes {
    pub fn hit(&mut self, k: &'static str) {
        *self.m.entry(k).or_insert(0) += 1;
    }
    pub fn add(&mut self, k: &'static str, n: u64) {
        *self.m.entry(k).or_insert(0) += n;
    }
    pub fn merge(&mut self, o: &Probes) {
        for (k, v) in &o.m {
            *self.m.entry(k).or_insert(0) += v;
        }
    }
}

pub struct World {
    pub slots: BTreeMap<usize, Slot>,
    pub owners: Vec<OwnerRec>,
    pub step: usize,
    pub viol: Vec<Violation>,
    pub probes: Probes,
    /// did some step see >=2 live handles on one block
    pub saw_sharing: bool,
    pub check_leaks: bool,
    /// lengths and capacities seen on handles in recent steps (also of handles that are gone by
    /// now): the generator likes to bring a handle back to exactly such a value
    pub recent_lens: Vec<usize>,
}

pub fn in_static(ptr: usize, len: usize) -> bool {
    let base = STATIC_DATA.as_ptr() as usize;
    ptr >= base && ptr + len <= base + STATIC_LEN
}

impl World {
    pub fn new() -> World {
        World {
            slots: BTreeMap::new(),
            owners: Vec::new(),
            step: 0,
            viol: Vec::new(),
            probes: Probes::default(),
            saw_sharing: false,
            check_leaks: true,
            recent_lens: Vec::new(),
        }
    }

    pub fn v(&mut self, props: &[&'static str], kind: &str, detail: String) {
        self.viol.push(Violation { props: props.to_vec(), kind: kind.to_string(), detail, step: self.step });
    }

    pub fn views(&self) -> BTreeMap<usize, View> {
        self.slots.iter().map(|(k, s)| (*k, s.view())).collect()
    }

    /// Block of a view: the live tracked block with user <= ptr <= user+size.
    pub fn block_of(ptr: usize) -> Option<BlockInfo> {
        alloc::lookup(ptr).filter(|b| b.live)
    }

    /// Classification of slot `id` by addresses only (DESIGN §C08).
    pub fn sharing(&self, id: usize) -> (Sharing, Option<BlockInfo>) {
        let me = match self.slots.get(&id) {
            Some(s) => s.view(),
            None => return (Sharing::NoBlock, None),
        };
        let blk = match Self::block_of(me.ptr) {
            Some(b) => b,
            None => return (Sharing::NoBlock, None),
        };
        // packed placement: an empty handle sitting exactly on the border of two
        // neighbouring blocks may belong to either of them
        let extent = if me.kind == 0 { me.len } else { me.cap };
        if extent == 0 && me.ptr == blk.user && me.ptr > 0 {
            if let Some(prev) = alloc::lookup(me.ptr - 1) {
                if prev.id != blk.id && prev.user + prev.size == me.ptr {
                    return (Sharing::Unknown, Some(blk));
                }
            }
        }
        let mut any_other = false;
        let mut nonempty_other = false;
        for (k, s) in &self.slots {
            if *k == id {
                continue;
            }
            let v = s.view();
            if v.kind == 2 && v.cap == 0 {
                continue; // unallocated Vec: dangling pointer, owns nothing
            }
            let ne = match v.kind {
                0 => v.len > 0,
                _ => v.cap > 0,
            };
            // the end address counts only for empty handles (a non-empty handle starting
            // there belongs to a neighbouring block — packed placement)
            if v.ptr >= blk.user && (v.ptr < blk.user + blk.size || (v.ptr == blk.user + blk.size && !ne)) {
                any_other = true;
                if ne {
                    nonempty_other = true;
                }
            }
        }
        let s = if nonempty_other {
            Sharing::Shared
        } else if any_other {
            Sharing::Unknown
        } else {
            Sharing::Alone
        };
        (s, Some(blk))
    }

    /// Range check of one view against the ledger *before* its memory is touched.
    /// Returns false if reading through the handle would not be safe.
    fn range_ok(&mut self, id: usize, v: View, origin: Origin) -> bool {
        let extent = if v.kind == 0 { v.len } else { v.cap };
        if extent == 0 {
            return true;
        }
        if !alloc::ENABLED {
            // no ledger (Miri is the allocator oracle in this build)
            return v.len <= extent;
        }
        if v.len > extent {
            self.v(
                &["C02", "C04"],
                "len-exceeds-capacity",
                format!("handle h{}: len {} > capacity {}", id, v.len, v.cap),
            );
            return false;
        }
        if in_static(v.ptr, extent) {
            if v.kind != 0 {
                self.v(&["C02", "C04"], "mutable-view-of-static", format!("handle h{} (mutable) points into static data", id));
                return false;
            }
            return true;
        }
        match alloc::lookup(v.ptr) {
            Some(b) if b.live => {
                if v.ptr.checked_add(extent).map(|e| e <= b.user + b.size).unwrap_or(false) {
                    true
                } else {
                    let props: &[&'static str] = if v.kind == 1 { &["C02", "C04"] } else { &["C02"] };
                    self.v(
                        props,
                        "view-exceeds-allocation",
                        format!(
                            "handle h{} ({}): region [+{}, +{}) leaves its allocation block#{} of size {} (len {}, capacity {})",
                            id,
                            ["Bytes", "BytesMut", "Vec"][v.kind as usize],
                            v.ptr - b.user,
                            (v.ptr - b.user) as u128 + extent as u128,
                            b.id,
                            b.size,
                            v.len,
                            v.cap
                        ),
                    );
                    false
                }
            }
            Some(b) => {
                // C04 states that a BytesMut region lies inside a single *live* allocation
                let props: &[&'static str] = if v.kind == 1 { &["C03", "C02", "C04"] } else { &["C03", "C02"] };
                self.v(
                    props,
                    "view-of-freed-memory",
                    format!(
                        "handle h{} ({}, len {}, origin {:?}) points into block#{} (size {}) which was already freed",
                        id,
                        ["Bytes", "BytesMut", "Vec"][v.kind as usize],
                        v.len,
                        origin,
                        b.id,
                        b.size
                    ),
                );
                false
            }
            None => {
                let props: &[&'static str] = if v.kind == 1 { &["C02", "C04"] } else { &["C02"] };
                self.v(
                    props,
                    "view-outside-any-allocation",
                    format!(
                        "handle h{} ({}, len {}, capacity {}) points to memory that is neither a live allocation nor the static data it was given",
                        id,
                        ["Bytes", "BytesMut", "Vec"][v.kind as usize],
                        v.len,
                        v.cap
                    ),
                );
                false
            }
        }
    }

    /// The step invariants. `scribbled`: id of the slot a scribble step just wrote through.
    pub fn check_invariants(&mut self, scribbled: Option<usize>) {
        // 0. allocator-side observations
        alloc::verify(false);
        for m in alloc::take_violations() {
            let props: &[&'static str] = if m.starts_with("double free") { &["C02", "C03"] } else { &["C02"] };
            let kind = m.split(':').next().unwrap_or("alloc").to_string();
            self.v(props, &format!("alloc:{}", kind), m);
        }

        for s in self.slots.values() {
            let v = s.view();
            for t in [v.len, v.cap] {
                if t > 0 && t <= (1 << 16) && !self.recent_lens.contains(&t) {
                    self.recent_lens.push(t);
                }
            }
        }
        if self.recent_lens.len() > 48 {
            let cut = self.recent_lens.len() - 48;
            self.recent_lens.drain(..cut);
        }
        let ids: Vec<usize> = self.slots.keys().copied().collect();
        let mut regions: Vec<(usize, usize, usize, u8)> = Vec::new(); // (start,end,id,kind)
        let mut readable: Vec<usize> = Vec::new();

        // 1. ranges
        for &id in &ids {
            let (v, origin) = {
                let s = &self.slots[&id];
                (s.view(), s.origin)
            };
            if v.kind == 2 {
                readable.push(id);
                continue;
            }
            if self.range_ok(id, v, origin) {
                readable.push(id);
                let extent = if v.kind == 0 { v.len } else { v.cap };
                if extent > 0 {
                    regions.push((v.ptr, v.ptr + extent, id, v.kind));
                }
            }
        }

        // 2. values
        for &id in &readable {
            let s = &self.slots[&id];
            let bad: Option<String> = match &s.real {
                Real::B(b) => cmp_val(&b[..], b.len(), b.remaining(), b.chunk(), &s.model),
                Real::M(m) => cmp_val(&m[..], m.len(), m.remaining(), m.chunk(), &s.model),
                Real::V(v) => {
                    if v[..] != s.model[..] {
                        Some(diff(&v[..], &s.model))
                    } else {
                        None
                    }
                }
            };
            if let Some(d) = bad {
                let other_scribble = scribbled.map(|x| x != id).unwrap_or(false);
                let props: &[&'static str] = if other_scribble { &["C04", "C01"] } else { &["C01"] };
                let kindname = match &s.real {
                    Real::B(_) => "Bytes",
                    Real::M(_) => "BytesMut",
                    Real::V(_) => "Vec",
                };
                self.v(props, "value-mismatch", format!("handle h{} ({}): {}", id, kindname, d));
            }
        }

        // 3. C04 disjointness of mutable regions
        regions.sort();
        for w in 0..regions.len() {
            let a = regions[w];
            let mut j = w + 1;
            while j < regions.len() && regions[j].0 < a.1 {
                let b = regions[j];
                if a.3 == 1 || b.3 == 1 {
                    self.v(
                        &["C04"],
                        "overlapping-regions",
                        format!(
                            "handles h{} ({}) and h{} ({}) overlap by {} bytes",
                            a.2,
                            if a.3 == 1 { "BytesMut, [ptr,ptr+capacity)" } else { "Bytes, [ptr,ptr+len)" },
                            b.2,
                            if b.3 == 1 { "BytesMut, [ptr,ptr+capacity)" } else { "Bytes, [ptr,ptr+len)" },
                            a.1.min(b.1) - b.0
                        ),
                    );
                }
                j += 1;
            }
        }

        // 4. C03 "not too late": live align-1 block nobody points into
        let live = alloc::live_blocks();
        let views: Vec<(usize, View)> = ids.iter().map(|id| (*id, self.slots[id].view())).collect();
        let mut per_block_handles = 0usize;
        for b in &live {
            if b.align != 1 {
                continue;
            }
            let mut n = 0;
            for (_, v) in &views {
                if v.kind == 2 && v.cap == 0 {
                    continue;
                }
                let ne = if v.kind == 0 { v.len > 0 } else { v.cap > 0 };
                if v.ptr >= b.user && (v.ptr < b.user + b.size || (v.ptr == b.user + b.size && !ne)) {
                    n += 1;
                }
            }
            if n >= 2 {
                per_block_handles += 1;
            }
            if n == 0 && self.check_leaks {
                self.v(
                    &["C03"],
                    "storage-outlives-handles",
                    format!(
                        "byte buffer block#{} (size {}, allocated in op {}) is still allocated although no live handle refers to it",
                        b.id, b.size, b.born_op
                    ),
                );
            }
        }
        if per_block_handles > 0 {
            self.saw_sharing = true;
        }
        if self.slots.is_empty() && self.check_leaks {
            for b in &live {
                self.v(
                    &["C03"],
                    "leak-world-empty",
                    format!("block#{} (size {}, align {}, allocated in op {}) still allocated with no handle left", b.id, b.size, b.align, b.born_op),
                );
            }
        }

        // 5. C08 uniqueness
        for &id in &ids {
            if !self.slots[&id].is_b() {
                continue;
            }
            let origin = self.slots[&id].origin;
            let (sh, _blk) = self.sharing(id);
            let got = match &self.slots[&id].real {
                Real::B(b) => b.is_unique(),
                _ => unreachable!(),
            };
            let expect: Option<bool> = match origin {
                Origin::Static | Origin::Owner(_) => Some(false),
                Origin::Heap => match sh {
                    Sharing::Shared => Some(false),
                    Sharing::Alone => Some(true),
                    _ => None,
                },
            };
            match sh {
                Sharing::Shared => self.probes.hit("uniq_shared"),
                Sharing::Alone => self.probes.hit("uniq_alone"),
                Sharing::Unknown => self.probes.hit("uniq_unknown"),
                Sharing::NoBlock => {}
            }
            if let Some(e) = expect {
                if e != got {
                    self.v(
                        &["C08"],
                        if e { "is_unique-false-for-sole-owner" } else { "is_unique-true-while-shared" },
                        format!("handle h{} (origin {:?}, sharing {:?}): is_unique() = {}, expected {}", id, origin, sh, got, e),
                    );
                }
            }
        }

        // 6. owners
        self.check_owners();
    }

    pub fn check_owners(&mut self) {
        for oi in 0..self.owners.len() {
            let (ar, dr, panicked, lying) = {
                let o = &self.owners[oi];
                (o.stats.as_ref.load(Ordering::SeqCst), o.stats.drops.load(Ordering::SeqCst), o.panicked, o.lying)
            };
            let mut any = false;
            let mut nonempty = false;
            for s in self.slots.values() {
                if s.origin == Origin::Owner(oi) && s.is_b() {
                    any = true;
                    if s.view().len > 0 {
                        nonempty = true;
                    }
                }
            }
            let props: &[&'static str] = if lying { &["C17", "C03"] } else { &["C03"] };
            if ar != 1 {
                self.v(props, "owner-as_ref-count", format!("owner#{}: as_ref called {} times, expected exactly 1", oi, ar));
            }
            if dr > 1 {
                self.v(props, "owner-dropped-twice", format!("owner#{}: dropped {} times", oi, dr));
            }
            if nonempty && dr != 0 {
                self.v(props, "owner-dropped-early", format!("owner#{}: dropped while a non-empty view is alive", oi));
            }
            if !any && dr != 1 {
                self.v(
                    props,
                    "owner-not-dropped",
                    format!("owner#{}: no handle of its lineage is left (as_ref panicked: {}) but drop count is {}", oi, panicked, dr),
                );
            }
        }
    }

    /// End of run: drop survivors in the given order, checking after each drop.
    pub fn finish(&mut self, order: &[usize]) {
        for &id in order {
            if self.viol.len() > 0 {
                break;
            }
            if let Some(s) = self.slots.remove(&id) {
                self.step += 1;
                alloc::set_op(1_000_000 + self.step as u64);
                let origin = s.origin;
                if let Err(p) = std::panic::catch_unwind(std::panic::AssertUnwindSafe(move || drop(s))) {
                    let msg = rt::panic_message(&*p);
                    let ok = msg.contains("SimOwner: drop told to panic") && matches!(origin, Origin::Owner(oi) if self.owners[oi].drop_panics);
                    if ok {
                        self.probes.hit("owner_drop_panic");
                    } else {
                        self.v(&["C01", "C03"], "unexpected-panic", format!("final drop of h{} panicked: {}", id, msg));
                    }
                }
                self.check_invariants(None);
            }
        }
        if self.viol.is_empty() {
            alloc::verify(true);
            for m in alloc::take_violations() {
                let kind = m.split(':').next().unwrap_or("alloc").to_string();
                self.v(&["C02"], &format!("alloc:{}", kind), m);
            }
        }
    }

    /// Abandon the world after a violation without running destructors on
    /// possibly corrupt handles.
    pub fn abandon(&mut self) {
        let slots = std::mem::take(&mut self.slots);
        for (_, s) in slots {
            std::mem::forget(s);
        }
    }
}

fn cmp_val(slice: &[u8], len: usize, remaining: usize, chunk: &[u8], model: &[u8]) -> Option<String> {
    if len != model.len() {
        return Some(format!("len() = {}, model has {}", len, model.len()));
    }
    if slice != model {
        return Some(diff(slice, model));
    }
    if remaining != model.len() {
        return Some(format!("Buf::remaining() = {}, model has {}", remaining, model.len()));
    }
    if chunk != model {
        return Some(format!("Buf::chunk() differs from contents ({} vs {} bytes)", chunk.len(), model.len()));
    }
    None
}

pub fn diff(got: &[u8], model: &[u8]) -> String {
    if got.len() != model.len() {
        return format!("length {} but model has {}", got.len(), model.len());
    }
    for i in 0..got.len() {
        if got[i] != model[i] {
            let hi = (i + 8).min(got.len());
            return format!(
                "first difference at byte {} of {}: got {:02x?}, model {:02x?}",
                i,
                got.len(),
                &got[i..hi],
                &model[i..hi]
            );
        }
    }
    "equal".into()
}

fn class(n: usize) -> u64 {
    match n {
        0 => 0,
        1 => 1,
        2..=7 => 2,
        8..=63 => 3,
        64..=1023 => 4,
        _ => 5,
    }
}

impl World {
    /// Hash of the abstract world: per slot type, length class, offset class,
    /// spare class, sharing class, origin kind — order-independent.
    pub fn abstract_hash(&self) -> u64 {
        let mut items: Vec<u64> = Vec::new();
        for (id, s) in &self.slots {
            let v = s.view();
            let (sh, blk) = self.sharing(*id);
            let off = blk.map(|b| v.ptr - b.user).unwrap_or(0);
            let o = match s.origin {
                Origin::Heap => 0,
                Origin::Static => 1,
                Origin::Owner(_) => 2,
            };
            let x = (v.kind as u64) | class(v.len) << 2 | class(off) << 5 | class(v.cap - v.len.min(v.cap)) << 8 | (sh as u64) << 11 | o << 14 | ((v.ptr & 1) as u64) << 16;
            items.push(x);
        }
        items.sort();
        let mut f = rt::Fnv::default();
        for i in items {
            f.u64(i);
        }
        f.0
    }
}
