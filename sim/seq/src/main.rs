//! E-seq: the handle-world simulator (DESIGN §2.2).
//!
//!   seq batch  --seed S --tag T --from A --to B --profile P --steps N [--journal F] [--emit F]
//!   seq replay FILE [--digest]
//!   seq replay-many FILE        (C16: one program per line, prints one digest line each)

#[cfg(feature = "simalloc")]
#[global_allocator]
static GLOBAL: rt::alloc::SimAlloc = rt::alloc::SimAlloc;

mod ops;
mod recycle;
mod world;

use std::collections::HashSet;
use std::io::Write;

use ops::*;
use rt::alloc::{self, AllocCfg};
use rt::journal::Journal;
use rt::{mix, Fnv, Rng, J};
use world::*;

fn arg(args: &[String], k: &str) -> Option<String> {
    args.iter().position(|a| a == k).and_then(|i| args.get(i + 1).cloned())
}
fn flag(args: &[String], k: &str) -> bool {
    args.iter().any(|a| a == k)
}

pub struct RunResult {
    pub ops: Vec<J>,
    pub violations: Vec<rt::Violation>,
    pub drop_order: Vec<usize>,
    pub steps: usize,
    pub trace_hash: u64,
    pub nontrivial: bool,
    pub digests: Vec<u64>,
    pub probes: Probes,
    pub oob_steps: u64,
    pub panics: u64,
    pub state_hashes: Vec<u64>,
    pub stats: alloc::Stats,
}

fn alloc_cfg(c: &RunCfg) -> AllocCfg {
    AllocCfg { parity: c.parity, realloc: c.realloc, seed: c.alloc_seed, quarantine_cap: 256 << 20 }
}

/// One generated run.
/// A from_owner owner whose destructor panics may be released by *any* operation that leaves no
/// non-empty view of it (C03 allows that); the harness only models the consuming ones. Such a
/// panic anywhere else is user code failing, not a violation: the run ends there, unjudged.
fn owner_drop_panic_elsewhere(w: &mut World) -> bool {
    if w.viol.iter().any(|v| v.kind == "unexpected-panic" && v.detail.contains(ops::OWNER_DROP_PANIC)) {
        w.viol.clear();
        w.probes.hit("owner_drop_panic_elsewhere");
        true
    } else {
        false
    }
}

fn run_generated(run_idx: u64, run_seed: u64, profile: &str, steps: usize, journal: &mut Journal, want_digest: bool) -> (RunCfg, RunResult) {
    let mut rng = Rng::new(run_seed);
    let cfg = draw_cfg(&mut rng, profile, steps);
    let mut gen_rng = rng.split(1);
    let mut drop_rng = rng.split(2);
    let mut script = draw_script(&mut rng.split(3), &cfg, profile);
    alloc::begin_run(alloc_cfg(&cfg));
    journal.reset(&J::obj().set("run", run_idx).set("seed", run_seed).set("profile", profile).set("cfg", cfg_to_json(&cfg)).dump());
    let mut w = World::new();
    let mut res = RunResult {
        ops: Vec::new(),
        violations: Vec::new(),
        drop_order: Vec::new(),
        steps: 0,
        trace_hash: 0,
        nontrivial: false,
        digests: Vec::new(),
        probes: Probes::default(),
        oob_steps: 0,
        panics: 0,
        state_hashes: Vec::new(),
        stats: Default::default(),
    };
    let mut trace = Fnv::default();
    let mut had_panic = false;
    let mut inconclusive = false;
    for step in 0..cfg.steps {
        let op = {
            let mut g = Gen { rng: &mut gen_rng, cfg: &cfg, script: &mut script };
            g.next(&w, step)
        };
        journal.line(&op.dump());
        w.step = step;
        let so = exec(&mut w, &op);
        if owner_drop_panic_elsewhere(&mut w) {
            inconclusive = true;
            res.ops.push(op.clone());
            res.steps += 1;
            break;
        }
        w.check_invariants(so.scribbled);
        if so.outcome == "panic" && !so.partial {
            had_panic = true;
        }
        if had_panic {
            // C13: after a caught panic every handle stays usable and storage is still released
            // exactly once — memory-safety / ledger observations from here on contradict it too
            for v in w.viol.iter_mut() {
                if !v.props.contains(&"C13") && (v.kind.starts_with("alloc:") || v.kind.starts_with("view-") || v.kind.starts_with("leak") || v.kind.starts_with("storage-") || v.kind == "value-mismatch") {
                    v.props.push("C13");
                }
            }
        }
        trace.str(op.str("op").unwrap_or(""));
        trace.str(so.outcome);
        if so.oob {
            res.oob_steps += 1;
        }
        if so.outcome == "panic" {
            res.panics += 1;
        }
        res.ops.push(op.clone());
        res.steps += 1;
        if !w.viol.is_empty() {
            break;
        }
        let ah = w.abstract_hash();
        if ah & 63 == 0 {
            res.state_hashes.push(ah);
        }
        if want_digest {
            let mut f = Fnv::default();
            digest_step(&w, &op, &so, &mut f);
            res.digests.push(f.0);
        }
    }
    if inconclusive {
        w.abandon();
    } else if w.viol.is_empty() {
        let mut ids: Vec<usize> = w.slots.keys().copied().collect();
        if cfg.drop_reverse {
            ids.reverse();
        } else {
            for i in (1..ids.len()).rev() {
                let j = drop_rng.below(i + 1);
                ids.swap(i, j);
            }
        }
        res.drop_order = ids.clone();
        journal.line(&J::obj().set("op", "final_drops").set("order", J::Arr(ids.iter().map(|x| J::from(*x)).collect())).dump());
        w.finish(&ids);
        if had_panic {
            for v in w.viol.iter_mut() {
                if !v.props.contains(&"C13") {
                    v.props.push("C13");
                }
            }
        }
    }
    trace.u64(w.abstract_hash());
    res.trace_hash = trace.0;
    res.nontrivial = w.saw_sharing;
    res.violations = std::mem::take(&mut w.viol);
    res.probes = w.probes.clone();
    res.stats = alloc::stats();
    if !res.violations.is_empty() {
        w.abandon();
    }
    (cfg, res)
}

/// Replay a recorded program exactly.
fn run_replay(rec: &J, want_digest: bool) -> RunResult {
    let cj = rec.get("cfg").cloned().unwrap_or(J::obj());
    let acfg = AllocCfg {
        parity: parity_from(cj.str("parity").unwrap_or("even")),
        realloc: realloc_from(cj.str("realloc").unwrap_or("move")),
        seed: cj.u64("alloc_seed"),
        quarantine_cap: 256 << 20,
    };
    alloc::begin_run(acfg);
    let mut w = World::new();
    let mut res = RunResult {
        ops: Vec::new(),
        violations: Vec::new(),
        drop_order: Vec::new(),
        steps: 0,
        trace_hash: 0,
        nontrivial: false,
        digests: Vec::new(),
        probes: Probes::default(),
        oob_steps: 0,
        panics: 0,
        state_hashes: Vec::new(),
        stats: Default::default(),
    };
    let mut inconclusive = false;
    for (k, op) in rec.arr("ops").iter().enumerate() {
        w.step = k;
        let so = exec(&mut w, op);
        if owner_drop_panic_elsewhere(&mut w) {
            inconclusive = true;
            break;
        }
        w.check_invariants(so.scribbled);
        res.steps += 1;
        if so.outcome == "panic" {
            res.panics += 1;
        }
        if res.panics > 0 {
            for v in w.viol.iter_mut() {
                if !v.props.contains(&"C13") && (v.kind.starts_with("alloc:") || v.kind.starts_with("view-") || v.kind.starts_with("leak") || v.kind.starts_with("storage-") || v.kind == "value-mismatch") {
                    v.props.push("C13");
                }
            }
        }
        if !w.viol.is_empty() {
            break;
        }
        if want_digest {
            let mut f = Fnv::default();
            digest_step(&w, op, &so, &mut f);
            res.digests.push(f.0);
        }
    }
    if inconclusive {
        w.abandon();
    } else if w.viol.is_empty() && !rec.boolean("no_final_drops") {
        let mut order: Vec<usize> = rec.arr("drop_order").iter().map(|x| x.as_int() as usize).collect();
        for id in w.slots.keys() {
            if !order.contains(id) {
                order.push(*id);
            }
        }
        w.finish(&order);
        if res.panics > 0 {
            for v in w.viol.iter_mut() {
                if !v.props.contains(&"C13") {
                    v.props.push("C13");
                }
            }
        }
    }
    res.violations = std::mem::take(&mut w.viol);
    res.probes = w.probes.clone();
    if !res.violations.is_empty() {
        w.abandon();
    }
    res
}

fn viol_json(v: &[rt::Violation]) -> J {
    J::Arr(v.iter().map(|x| x.to_json()).collect())
}

fn main() {
    std::env::set_var("RUST_BACKTRACE", "0");
    rt::silence_panics();
    let args: Vec<String> = std::env::args().collect();
    let mode = args.get(1).map(|s| s.as_str()).unwrap_or("");
    let out = std::io::stdout();
    match mode {
        "batch" => {
            let seed: u64 = arg(&args, "--seed").and_then(|s| s.parse().ok()).unwrap_or(1);
            let tag: u64 = arg(&args, "--tag").and_then(|s| s.parse().ok()).unwrap_or(0);
            let from: u64 = arg(&args, "--from").and_then(|s| s.parse().ok()).unwrap_or(0);
            let to: u64 = arg(&args, "--to").and_then(|s| s.parse().ok()).unwrap_or(1);
            let profile = arg(&args, "--profile").unwrap_or_else(|| "std".into());
            let steps: usize = arg(&args, "--steps").and_then(|s| s.parse().ok()).unwrap_or(40);
            let max_viol: usize = arg(&args, "--max-viol").and_then(|s| s.parse().ok()).unwrap_or(5);
            let mut journal = match arg(&args, "--journal") {
                Some(p) => Journal::open(&p),
                None => Journal::none(),
            };
            let mut emit = arg(&args, "--emit").map(|p| std::fs::File::create(p).expect("emit file"));
            if profile == "recycle" {
                recycle::batch(seed, tag, from, to, &args, &mut journal);
                return;
            }
            let mut total_steps = 0u64;
            let mut probes = Probes::default();
            let mut nontrivial: HashSet<u64> = HashSet::new();
            let mut states: HashSet<u64> = HashSet::new();
            let (mut oob, mut panics, mut viol_runs) = (0u64, 0u64, 0usize);
            let mut st = alloc::Stats::default();
            let mut samples: Vec<J> = Vec::new();
            for i in from..to {
                let run_seed = mix(&[seed, tag, i]);
                let (cfg, r) = run_generated(i, run_seed, &profile, steps, &mut journal, emit.is_some());
                total_steps += r.steps as u64;
                probes.merge(&r.probes);
                oob += r.oob_steps;
                panics += r.panics;
                if r.nontrivial {
                    nontrivial.insert(r.trace_hash);
                }
                for h in &r.state_hashes {
                    states.insert(*h);
                }
                st.allocs += r.stats.allocs;
                st.align1_allocs += r.stats.align1_allocs;
                st.even_placements += r.stats.even_placements;
                st.odd_placements += r.stats.odd_placements;
                st.realloc_moves += r.stats.realloc_moves;
                st.realloc_inplace += r.stats.realloc_inplace;
                st.deallocs += r.stats.deallocs;
                if samples.len() < 2 && r.nontrivial && r.violations.is_empty() {
                    samples.push(J::obj().set("run", i).set("seed", run_seed).set("cfg", cfg_to_json(&cfg)).set("ops", J::Arr(r.ops.clone())));
                }
                if let Some(f) = emit.as_mut() {
                    let rec = J::obj()
                        .set("run", i)
                        .set("seed", run_seed)
                        .set("cfg", cfg_to_json(&cfg))
                        .set("ops", J::Arr(r.ops.clone()))
                        .set("drop_order", J::Arr(r.drop_order.iter().map(|x| J::from(*x)).collect()))
                        .set("digests", J::Arr(r.digests.iter().map(|x| J::from(*x)).collect()))
                        .set("vkinds", J::Arr(r.violations.iter().take(1).map(|v| J::from(v.kind.as_str())).collect()))
                        .set("violated", !r.violations.is_empty());
                    let _ = writeln!(f, "{}", rec.dump());
                }
                if !r.violations.is_empty() {
                    viol_runs += 1;
                    let rec = J::obj()
                        .set("type", "violation")
                        .set("engine", "seq")
                        .set("profile", profile.as_str())
                        .set("run", i)
                        .set("seed", run_seed)
                        .set("cfg", cfg_to_json(&cfg))
                        .set("ops", J::Arr(r.ops.clone()))
                        .set("drop_order", J::Arr(r.drop_order.iter().map(|x| J::from(*x)).collect()))
                        .set("violations", viol_json(&r.violations));
                    let _ = writeln!(out.lock(), "{}", rec.dump());
                    if viol_runs >= max_viol {
                        break;
                    }
                }
            }
            let mut pj = J::obj();
            for (k, v) in &probes.m {
                pj.put(k, *v);
            }
            let sum = J::obj()
                .set("type", "summary")
                .set("runs", to - from)
                .set("steps", total_steps)
                .set("viol_runs", viol_runs)
                .set("oob_steps", oob)
                .set("panics", panics)
                .set("probes", pj)
                .set(
                    "alloc",
                    J::obj()
                        .set("allocs", st.allocs)
                        .set("align1_allocs", st.align1_allocs)
                        .set("even_placements", st.even_placements)
                        .set("odd_placements", st.odd_placements)
                        .set("realloc_moves", st.realloc_moves)
                        .set("realloc_inplace", st.realloc_inplace)
                        .set("deallocs", st.deallocs),
                )
                .set("nontrivial", J::Arr(nontrivial.iter().map(|x| J::from(*x)).collect()))
                .set("state_sample", J::Arr(states.iter().map(|x| J::from(*x)).collect()))
                .set("samples", J::Arr(samples));
            let _ = writeln!(out.lock(), "{}", sum.dump());
        }
        "replay" => {
            let path = args.get(2).expect("replay FILE");
            let txt = std::fs::read_to_string(path).expect("read replay file");
            let rec = J::parse(&txt).expect("parse replay file");
            if rec.str("profile") == Some("recycle") {
                std::process::exit(recycle::replay(&rec));
            }
            let r = run_replay(&rec, flag(&args, "--digest"));
            let o = J::obj()
                .set("type", "replay")
                .set("steps", r.steps)
                .set("violations", viol_json(&r.violations))
                .set("digests", J::Arr(r.digests.iter().map(|x| J::from(*x)).collect()));
            let _ = writeln!(out.lock(), "{}", o.dump());
            std::process::exit(if r.violations.is_empty() { 0 } else { 1 });
        }
        "replay-many" => {
            let path = args.get(2).expect("replay-many FILE");
            let txt = std::fs::read_to_string(path).expect("read file");
            for line in txt.lines() {
                if line.trim().is_empty() {
                    continue;
                }
                let mut rec = J::parse(line).expect("parse line");
                // configuration overrides (C16): --parity X --realloc Y
                if let Some(p) = arg(&args, "--parity") {
                    let mut c = rec.get("cfg").cloned().unwrap_or(J::obj());
                    c.put("parity", p.as_str());
                    rec.put("cfg", c);
                }
                if let Some(p) = arg(&args, "--realloc") {
                    let mut c = rec.get("cfg").cloned().unwrap_or(J::obj());
                    c.put("realloc", p.as_str());
                    rec.put("cfg", c);
                }
                let r = run_replay(&rec, true);
                let o = J::obj()
                    .set("run", rec.u64("run"))
                    .set("digests", J::Arr(r.digests.iter().map(|x| J::from(*x)).collect()))
                    .set("violations", viol_json(&r.violations));
                let _ = writeln!(out.lock(), "{}", o.dump());
            }
        }
        _ => {
            eprintln!("usage: seq batch|replay|replay-many ...");
            std::process::exit(2);
        }
    }
}
