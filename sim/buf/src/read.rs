//! E-buf read side (C09, C10, C12): one run = a nest built from a plan, then cursor
//! operations compared step by step with a flat model of the bytes that are left.

use std::io::{BufRead, IoSlice, Read};
use std::panic::{catch_unwind, AssertUnwindSafe};

use bytes::buf::IntoIter;
use bytes::Buf;
use rt::{Rng, Violation, J};

use crate::gets::{self, R};
use crate::node::*;

static SENTINEL: [u8; 8] = *b"SENTINEL";
static SCRATCH: [u8; 4096] = [0x99; 4096];

pub struct ReadRun {
    pub viol: Vec<Violation>,
    pub steps: usize,
    pub ops: Vec<J>,
    pub straddles: u64,
    pub shortfalls: u64,
    pub panics: u64,
    pub probes: std::collections::BTreeMap<&'static str, u64>,
    pub digest: rt::Fnv,
}

fn has_adapter(p: &J) -> bool {
    match p.str("k").unwrap_or("") {
        "chain" | "take" => true,
        "mutref" | "box" | "dyn" => has_adapter(p.get("in").unwrap()),
        _ => false,
    }
}

/// chunk lengths of the nest as the flat model sees them (for straddle probes)
fn first_chunk_len<B: Buf>(b: &B) -> usize {
    b.chunk().len()
}

pub fn gen_op(rng: &mut Rng, rest_len: usize, chunk_len: usize, first16: usize, stale_hint: usize, root_is_take: bool, root_is_chain: bool, focus: &str) -> J {
    let n_arg = |rng: &mut Rng| -> usize {
        match rng.below(30) {
            0 | 1 => 0,
            2 | 3 => 1.min(rest_len),
            4 => rest_len,
            5 => rest_len + 1,
            6 | 7 | 8 => chunk_len.min(rest_len),
            9 | 10 | 11 => (chunk_len + 1).min(rest_len),
            12 | 13 => chunk_len.saturating_sub(1),
            14 => rest_len.saturating_sub(1),
            15 => rest_len + rng.range(2, 40),
            16..=22 => rng.range(0, rest_len.min(12)),
            _ => rng.range(0, rest_len.max(1)),
        }
    };
    let get_op = |rng: &mut Rng| -> J {
        let try_ = rng.chance(1, 2);
        let var = rng.chance(2, 5);
        let base = if var { *rng.pick(gets::VAR) } else { *rng.pick(gets::FIXED) };
        let name = format!("{}{}", if try_ { "try_get_" } else { "get_" }, base);
        let nb = if var {
            if rng.chance(1, 30) {
                9 + rng.below(3)
            } else {
                rng.range(0, 8)
            }
        } else {
            0
        };
        J::obj().set("op", "get").set("m", name).set("nb", nb)
    };
    let w: &[u32] = match focus {
        "typed" => &[2, 1, 1, 1, 1, 20, 1, 1, 2, 1, 1, 0, 0],
        "adapters" => &[4, 3, 2, 2, 4, 4, 4, 3, 6, 4, 3, 1, 3],
        _ => &[6, 5, 4, 3, 5, 5, 2, 2, 3, 2, 2, 1, 1],
    };
    // a length far beyond anything that is there (and beyond anything an allocator can serve):
    // the refusal must come before any attempt to provide room for it
    let huge = |rng: &mut Rng| -> usize { *rng.pick(&[1usize << 50, isize::MAX as usize, usize::MAX, usize::MAX - rest_len, (isize::MAX as usize) - 7]) };
    match rng.weighted(w) {
        12 => {
            let which = *rng.pick(&["read_to_end", "read_to_string", "read_exact", "read_until", "bytes"]);
            J::obj().set("op", "reader_std").set("m", which).set("n", n_arg(rng)).set("delim", rng.below(256))
        }
        0 => J::obj().set("op", "advance").set("n", if rng.chance(1, 40) { huge(rng) } else { n_arg(rng) }),
        1 => {
            let k = *rng.pick(&[0usize, 1, 2, 3, 16, 17, 32]);
            let o = J::obj().set("op", "chunks_vectored").set("k", k);
            // dst is an out-parameter: whatever the caller left in it must not matter. Stale
            // entries of chosen lengths (for a root chain: exactly what its first half does not report)
            match rng.below(4) {
                0 if k >= 2 => {
                    let mut lens = vec![J::from(0usize); k];
                    let d = if stale_hint > 0 && stale_hint <= 4096 && rng.chance(2, 3) { stale_hint } else { rng.range(0, 40) };
                    lens[k - 1] = J::from(d);
                    if k >= 3 && rng.chance(1, 2) {
                        let d0 = rng.range(0, d);
                        lens[k - 1] = J::from(d - d0);
                        lens[k - 2] = J::from(d0);
                    }
                    o.set("stale", J::Arr(lens))
                }
                1 if k >= 1 => o.set("stale", J::Arr((0..k).map(|_| J::from(rng.range(0, 30))).collect())),
                _ => o,
            }
        }
        2 => J::obj().set("op", "copy_to_slice").set("n", n_arg(rng)),
        3 => J::obj().set("op", "try_copy_to_slice").set("n", n_arg(rng)),
        4 => J::obj().set("op", "copy_to_bytes").set("n", if rng.chance(1, 30) { huge(rng) } else { n_arg(rng) }),
        5 => get_op(rng),
        6 => J::obj().set("op", "reader_read").set("n", n_arg(rng)),
        7 => J::obj().set("op", "reader_fill_consume").set("n", rng.range(0, chunk_len)),
        8 => {
            // first16 = bytes in the first 16 chunks the nest reports (0 if it has fewer): a limit that
            // ends shortly after them, looked at through more than 16 slots
            let many = first16 > 0 && first16 < rest_len && rng.chance(1, 3);
            let lim = if many {
                first16 + rng.range(0, 4)
            } else {
                match rng.below(6) {
                    0 => 0,
                    1 => rest_len,
                    2 => usize::MAX,
                    3 => rest_len + 1,
                    _ => rng.range(0, rest_len.max(1)),
                }
            };
            let inner = match if many { 2 } else { rng.below(4) } {
                0 => J::obj().set("op", "advance").set("n", rng.range(0, lim.min(rest_len))),
                1 => J::obj().set("op", "copy_to_bytes").set("n", rng.range(0, lim.min(rest_len))),
                2 => J::obj().set("op", "chunks_vectored").set("k", if many { *rng.pick(&[17usize, 20, 32]) } else { *rng.pick(&[1usize, 2, 3, 16, 17]) }),
                _ => get_op(rng),
            };
            J::obj().set("op", "take_tmp").set("lim", lim).set("inner", inner)
        }
        9 => {
            let inner = match rng.below(4) {
                0 => J::obj().set("op", "advance").set("n", rng.range(0, rest_len + 6)),
                1 => J::obj().set("op", "copy_to_bytes").set("n", rng.range(0, rest_len + 6)),
                2 => J::obj().set("op", "chunks_vectored").set("k", *rng.pick(&[1usize, 2, 3, 16, 17])),
                _ => get_op(rng),
            };
            J::obj().set("op", "chain_tmp").set("seed", rng.next_u64()).set("n", rng.range(0, 12)).set("inner", inner)
        }
        10 => {
            if root_is_take {
                if rng.chance(1, 2) {
                    J::obj().set("op", "set_limit").set("lim", *rng.pick(&[0usize, 1, 5, 50, usize::MAX, rest_len, rest_len + 1]))
                } else {
                    J::obj().set("op", "get_mut_advance").set("n", rng.range(0, 3))
                }
            } else if root_is_chain {
                // give one half of a root chain bytes again, through first_mut()/last_mut()
                J::obj().set("op", "chain_refill").set("side", rng.below(2)).set("seed", rng.next_u64()).set("n", rng.range(1, 20)).set("back", rng.range(1, 12))
            } else {
                J::obj().set("op", "advance").set("n", n_arg(rng))
            }
        }
        _ => {
            // iterator protocol: a short script of next / nth(j) / len calls
            let calls: Vec<J> = (0..rng.range(0, 4)).map(|_| J::from(if rng.chance(1, 2) { 0usize } else { rng.range(1, rest_len + 3) })).collect();
            J::obj().set("op", "into_iter").set("k", rng.range(0, rest_len)).set("nth", J::Arr(calls))
        }
    }
}

fn plan_has_chain(p: &J) -> bool {
    p.str("k") == Some("chain") || ["a", "b", "in"].iter().any(|k| p.get(k).map(plan_has_chain).unwrap_or(false))
}

enum Flow {
    Continue,
    End,
}

struct Ctx<'p> {
    plan: &'p J,
    adapters: bool,
    viol: Vec<Violation>,
    step: usize,
    straddles: u64,
    shortfalls: u64,
    panics: u64,
    probes: std::collections::BTreeMap<&'static str, u64>,
}
impl<'p> Ctx<'p> {
    fn v(&mut self, props: &[&'static str], kind: &str, detail: String) {
        self.viol.push(Violation { props: props.to_vec(), kind: kind.to_string(), detail, step: self.step });
    }
    fn law(&mut self, kind: &str, detail: String) {
        if self.adapters {
            self.v(&["C09", "C12"], kind, detail);
        } else {
            self.v(&["C09"], kind, detail);
        }
    }
    fn hit(&mut self, k: &'static str) {
        *self.probes.entry(k).or_insert(0) += 1;
    }
}

/// Laws that must hold between operations.
fn check_state<B: Buf>(cx: &mut Ctx, b: &B, rest: &[u8], what: &str) {
    let rem = b.remaining();
    if rem != rest.len() {
        cx.law("remaining", format!("{}: remaining() = {} but {} bytes are left in the sequence", what, rem, rest.len()));
        return;
    }
    if b.has_remaining() != !rest.is_empty() {
        cx.law("has_remaining", format!("{}: has_remaining() = {} with {} bytes left", what, b.has_remaining(), rest.len()));
    }
    let c = b.chunk();
    if c.len() > rest.len() || c != &rest[..c.len()] {
        cx.law("chunk-not-prefix", format!("{}: chunk() ({} bytes) is not a prefix of the {} bytes left", what, c.len(), rest.len()));
    } else if c.is_empty() && !rest.is_empty() {
        cx.law("chunk-empty", format!("{}: chunk() is empty although {} bytes are left", what, rest.len()));
    }
}

/// Execute one cursor operation on any Buf against the flat model. `rest` is updated.
fn do_op<B: Buf>(cx: &mut Ctx, b: &mut B, rest: &mut Vec<u8>, op: &J, what: &str) -> Flow {
    let name = op.str("op").unwrap_or("");
    let len = rest.len();
    match name {
        "advance" => {
            let n = op.us("n");
            let r = catch_unwind(AssertUnwindSafe(|| b.advance(n)));
            match (r, n <= len) {
                (Ok(()), true) => {
                    rest.drain(..n);
                    Flow::Continue
                }
                (Err(_), false) => {
                    cx.panics += 1;
                    // A Chain may have consumed its first half before the second refuses; in a nest
                    // without Chain nothing went through, so every adapter must still say so (C12)
                    if what == "nest" && !plan_has_chain(cx.plan) {
                        cx.hit("refused_advance_then_continued");
                        Flow::Continue
                    } else {
                        Flow::End
                    }
                }
                (Ok(()), false) => {
                    cx.law("advance-past-end-returned", format!("{}: advance({}) returned with only {} bytes left", what, n, len));
                    Flow::End
                }
                (Err(p), true) => {
                    cx.law("advance-panicked", format!("{}: advance({}) panicked ({}) with {} bytes left", what, n, rt::panic_message(&*p), len));
                    Flow::End
                }
            }
        }
        "chunks_vectored" => {
            let k = op.us("k").min(64);
            let stale: Vec<usize> = op.arr("stale").iter().map(|x| (x.as_int() as usize).min(SCRATCH.len())).collect();
            let before: Vec<(usize, usize)> = (0..k).map(|i| if stale.len() == k { (SCRATCH.as_ptr() as usize, stale[i]) } else { (SENTINEL.as_ptr() as usize, SENTINEL.len()) }).collect();
            let mut dst: Vec<IoSlice> = (0..k).map(|i| if stale.len() == k { IoSlice::new(&SCRATCH[..stale[i]]) } else { IoSlice::new(&SENTINEL) }).collect();
            if stale.len() == k && k > 0 {
                cx.hit("vectored_stale_dst");
            }
            let r = catch_unwind(AssertUnwindSafe(|| b.chunks_vectored(&mut dst)));
            match r {
                Err(p) => {
                    cx.law("chunks_vectored-panicked", format!("{}: chunks_vectored(dst.len()={}) panicked: {}", what, k, rt::panic_message(&*p)));
                    Flow::End
                }
                Ok(n) => {
                    if n > k {
                        cx.law("chunks_vectored-count", format!("{}: chunks_vectored returned {} > dst.len() {}", what, n, k));
                        return Flow::End;
                    }
                    let mut cat = Vec::new();
                    let mut nonempty = false;
                    for s in &dst[..n] {
                        if !s.is_empty() {
                            nonempty = true;
                        }
                        cat.extend_from_slice(s);
                    }
                    if n >= 2 {
                        cx.hit("vectored_multi");
                    }
                    if cat.len() > len || cat[..] != rest[..cat.len()] {
                        cx.law(
                            "chunks_vectored-not-prefix",
                            format!("{}: the {} slices filled by chunks_vectored ({} bytes) are not a prefix of the {} bytes left", what, n, cat.len(), len),
                        );
                    } else if !nonempty && len > 0 && k > 0 {
                        cx.law("chunks_vectored-empty", format!("{}: chunks_vectored filled {} slices, all empty, with {} bytes left", what, n, len));
                    }
                    for (i, s) in dst.iter().enumerate().skip(n) {
                        if (s.as_ptr() as usize != before[i].0 && s.len() > 0) || s.len() != before[i].1 {
                            cx.law("chunks_vectored-touched-beyond-count", format!("{}: chunks_vectored returned {} but modified dst beyond that", what, n));
                            break;
                        }
                    }
                    Flow::Continue
                }
            }
        }
        "copy_to_slice" | "try_copy_to_slice" => {
            let n = op.us("n").min(1 << 20);
            let mut dst = vec![0x77u8; n];
            let try_ = name == "try_copy_to_slice";
            let r = catch_unwind(AssertUnwindSafe(|| if try_ { b.try_copy_to_slice(&mut dst) } else { b.copy_to_slice(&mut dst); Ok(()) }));
            match r {
                Ok(Ok(())) => {
                    if n > len {
                        cx.law("copy_to_slice-past-end-returned", format!("{}: {}({}) succeeded with only {} bytes left", what, name, n, len));
                        return Flow::End;
                    }
                    if dst[..] != rest[..n] {
                        cx.law("copy_to_slice-wrong-bytes", format!("{}: {}({}) delivered wrong bytes", what, name, n));
                    }
                    rest.drain(..n);
                    Flow::Continue
                }
                Ok(Err(e)) => {
                    cx.shortfalls += 1;
                    if n <= len {
                        cx.law("try_copy_to_slice-err", format!("{}: try_copy_to_slice({}) failed with {} bytes left", what, n, len));
                    } else if e.requested != n || e.available != len {
                        cx.law("try_copy_to_slice-err-fields", format!("{}: try_copy_to_slice({}) with {} left reported {:?}", what, n, len, e));
                    }
                    Flow::Continue
                }
                Err(p) => {
                    cx.panics += 1;
                    if n <= len || try_ {
                        cx.law("copy_to_slice-panicked", format!("{}: {}({}) panicked ({}) with {} bytes left", what, name, n, rt::panic_message(&*p), len));
                        return Flow::End;
                    }
                    // the request did not fit: nothing went through, so the cursor (and every inner
                    // buffer) must be where it was — the state checks that follow verify it
                    cx.hit("failed_read_then_continued");
                    Flow::Continue
                }
            }
        }
        "copy_to_bytes" => {
            let n = op.us("n");
            let r = catch_unwind(AssertUnwindSafe(|| b.copy_to_bytes(n)));
            match r {
                Ok(got) => {
                    if n > len {
                        cx.law("copy_to_bytes-past-end-returned", format!("{}: copy_to_bytes({}) returned with only {} bytes left", what, n, len));
                        return Flow::End;
                    }
                    if got[..] != rest[..n] {
                        cx.law("copy_to_bytes-wrong-bytes", format!("{}: copy_to_bytes({}) returned {} bytes, wrong content or length", what, n, got.len()));
                    }
                    rest.drain(..n);
                    Flow::Continue
                }
                Err(p) => {
                    cx.panics += 1;
                    if n <= len {
                        cx.law("copy_to_bytes-panicked", format!("{}: copy_to_bytes({}) panicked ({}) with {} bytes left", what, n, rt::panic_message(&*p), len));
                        return Flow::End;
                    }
                    cx.hit("failed_read_then_continued");
                    Flow::Continue
                }
            }
        }
        "get" => {
            let mname = op.str("m").unwrap_or("");
            let nb = op.us("nb");
            let m = match gets::parse(mname) {
                Some(m) => m,
                None => return Flow::Continue,
            };
            let size = if m.var { nb } else { m.size };
            let chunk0 = first_chunk_len(b);
            let r = catch_unwind(AssertUnwindSafe(|| gets::call(b, mname, nb)));
            if m.var && nb > 8 {
                return match r {
                    Err(_) => {
                        cx.panics += 1;
                        Flow::End
                    }
                    Ok(_) => {
                        cx.v(&["C10"], "nbytes-too-large-returned", format!("{}: {}({}) returned instead of panicking", what, mname, nb));
                        Flow::End
                    }
                };
            }
            if size <= len && chunk0 < size && size > 0 {
                cx.straddles += 1;
            }
            match r {
                Ok(Some(R::Val(v))) => {
                    if size > len {
                        cx.v(&["C10"], "typed-get-past-end-returned", format!("{}: {}({}) returned a value with only {} bytes left", what, mname, nb, len));
                        return Flow::End;
                    }
                    let want = gets::decode(&m, &rest[..size]);
                    if v != want {
                        cx.v(
                            &["C10"],
                            "typed-get-wrong-value",
                            format!("{}: {}({}) over bytes {:02x?} returned {:#x}, expected {:#x} (first chunk {} bytes)", what, mname, nb, &rest[..size], v, want, chunk0),
                        );
                    }
                    rest.drain(..size);
                    Flow::Continue
                }
                Ok(Some(R::Err { requested, available })) => {
                    cx.shortfalls += 1;
                    if size <= len {
                        cx.v(&["C10"], "try_get-err-with-enough-bytes", format!("{}: {}({}) = Err with {} bytes left", what, mname, nb, len));
                    } else if requested != size || available != len {
                        cx.v(
                            &["C10"],
                            "try_get-err-fields",
                            format!("{}: {}({}) with {} left: Err{{requested: {}, available: {}}}", what, mname, nb, len, requested, available),
                        );
                    }
                    Flow::Continue
                }
                Ok(None) => Flow::Continue,
                Err(p) => {
                    cx.panics += 1;
                    if size <= len {
                        cx.v(&["C10"], "typed-get-panicked", format!("{}: {}({}) panicked ({}) with {} bytes left", what, mname, nb, rt::panic_message(&*p), len));
                        return Flow::End;
                    } else if m.try_ {
                        cx.v(&["C10"], "try_get-panicked", format!("{}: {}({}) panicked instead of returning Err ({} bytes left)", what, mname, nb, len));
                        return Flow::End;
                    }
                    // get_X with too few bytes: must panic and leave the cursor untouched
                    cx.hit("failed_read_then_continued");
                    Flow::Continue
                }
            }
        }
        _ => Flow::Continue,
    }
}

/// Run `ops` (or generate up to `max_ops`) against the nest described by `plan`.
pub fn run(plan: &J, given: Option<&[J]>, rng: &mut Rng, max_ops: usize, focus: &str, journal: &mut rt::journal::Journal) -> ReadRun {
    let mut arena: Vec<Vec<u8>> = Vec::new();
    collect_arena(plan, &mut arena);
    let mut next = 0usize;
    let mut node = build(plan, &arena, &mut next);
    let mut rest = expose(plan);
    let mut cx = Ctx { plan, adapters: has_adapter(plan), viol: Vec::new(), step: 0, straddles: 0, shortfalls: 0, panics: 0, probes: Default::default() };
    let root_is_take = plan.str("k") == Some("take");
    // model of a root Take: full inner leftover, current limit, bytes that went through / around the adapter
    let mut inner_rest: Vec<u8> = if root_is_take { expose(plan.get("in").unwrap()) } else { Vec::new() };
    let mut lim_now: u128 = if root_is_take { plan.int("lim").unwrap_or(0) as u128 } else { 0 };
    let mut through = 0usize;
    let mut direct = 0usize;
    let mut ops_done: Vec<J> = Vec::new();
    let mut digest = rt::Fnv::default();
    let mut ended = false;
    let mut consumed_iter = false;
    let root_is_chain = plan.str("k") == Some("chain");
    let mut refilled = false;

    check_state(&mut cx, &node, &rest, "fresh nest");
    let n_ops = given.map(|g| g.len()).unwrap_or(max_ops);
    let mut k = 0;
    while k < n_ops && cx.viol.is_empty() && !ended {
        let op = match given {
            Some(g) => g[k].clone(),
            None => {
                let first16 = {
                    let mut io = [std::io::IoSlice::new(&[]); 16];
                    let n = node.chunks_vectored(&mut io);
                    if n == 16 {
                        io.iter().map(|s| s.len()).sum()
                    } else {
                        0
                    }
                };
                let stale_hint = if let Node::Chain(c) = &node {
                    let a = c.first_ref();
                    let mut io = [std::io::IoSlice::new(&[]); 64];
                    let n = a.chunks_vectored(&mut io).min(64);
                    let rep: usize = io[..n].iter().map(|s| s.len()).sum();
                    a.remaining().saturating_sub(rep)
                } else {
                    0
                };
                gen_op(rng, rest.len(), node.chunk().len(), first16, stale_hint, root_is_take, root_is_chain, focus)
            }
        };
        if given.is_none() {
            journal.line(&op.dump());
        }
        cx.step = k;
        k += 1;
        ops_done.push(op.clone());
        let before = rest.len();
        let name = op.str("op").unwrap_or("").to_string();
        let flow = match name.as_str() {
            "reader_read" => {
                let n = op.us("n").min(1 << 16);
                let mut dst = vec![0x66u8; n];
                let mut acc = [0usize; 4];
                let r = catch_unwind(AssertUnwindSafe(|| {
                    let mut rd = (&mut node).reader();
                    acc[0] = rd.get_ref().remaining();
                    let got = rd.read(&mut dst);
                    acc[1] = rd.get_ref().remaining();
                    acc[2] = rd.get_mut().remaining();
                    let inner = rd.into_inner();
                    acc[3] = inner.remaining();
                    got
                }));
                match r {
                    Ok(Ok(got)) => {
                        let want = n.min(rest.len());
                        if acc[0] != rest.len() || acc[1..].iter().any(|&x| x != rest.len().wrapping_sub(got)) {
                            cx.v(&["C12"], "reader-accessors", format!("Reader over {} bytes, read returned {}: get_ref/get_ref/get_mut/into_inner show remaining {:?}", rest.len(), got, acc));
                        }
                        if got != want {
                            cx.v(&["C12"], "reader-read-count", format!("Reader::read(buf of {}) with {} available returned {}", n, rest.len(), got));
                        } else if dst[..got] != rest[..got] {
                            cx.v(&["C12"], "reader-read-bytes", format!("Reader::read delivered wrong bytes ({} of {})", got, n));
                        } else if dst[got..].iter().any(|&b| b != 0x66) {
                            cx.v(&["C12"], "reader-read-overwrote", format!("Reader::read wrote beyond the {} bytes it reported", got));
                        }
                        rest.drain(..got.min(rest.len()));
                        Flow::Continue
                    }
                    Ok(Err(e)) => {
                        cx.v(&["C12"], "reader-failed", format!("Reader::read returned Err({})", e));
                        Flow::End
                    }
                    Err(p) => {
                        cx.v(&["C12"], "reader-panicked", format!("Reader::read(buf of {}) panicked: {}", n, rt::panic_message(&*p)));
                        Flow::End
                    }
                }
            }
            "reader_fill_consume" => {
                let n = op.us("n");
                let r = catch_unwind(AssertUnwindSafe(|| {
                    let mut rd = (&mut node).reader();
                    let fb = rd.fill_buf().map(|s| s.to_vec());
                    let amt = n.min(fb.as_ref().map(|v| v.len()).unwrap_or(0));
                    rd.consume(amt);
                    (fb, amt)
                }));
                match r {
                    Ok((Ok(fb), amt)) => {
                        if fb.len() > rest.len() || fb[..] != rest[..fb.len()] || (fb.is_empty() && !rest.is_empty()) {
                            cx.v(&["C12"], "reader-fill_buf", format!("BufRead::fill_buf returned {} bytes that are not a non-empty prefix of the {} left", fb.len(), rest.len()));
                        }
                        rest.drain(..amt.min(rest.len()));
                        Flow::Continue
                    }
                    Ok((Err(e), _)) => {
                        cx.v(&["C12"], "reader-failed", format!("BufRead::fill_buf returned Err({})", e));
                        Flow::End
                    }
                    Err(p) => {
                        cx.v(&["C12"], "reader-panicked", format!("fill_buf/consume panicked: {}", rt::panic_message(&*p)));
                        Flow::End
                    }
                }
            }
            "reader_std" => {
                // the rest of std::io::{Read, BufRead} as provided for Reader (default methods or overrides)
                let m = op.str("m").unwrap_or("").to_string();
                let n = op.us("n").min(1 << 16);
                let delim = op.us("delim") as u8;
                let utf8_ok = std::str::from_utf8(&rest).is_ok();
                let r = catch_unwind(AssertUnwindSafe(|| -> (std::io::Result<usize>, Vec<u8>) {
                    let mut rd = (&mut node).reader();
                    match m.as_str() {
                        "read_to_end" => {
                            let mut v = vec![0xAAu8; 3];
                            let r = rd.read_to_end(&mut v);
                            (r, v.split_off(3.min(v.len())))
                        }
                        "read_to_string" => {
                            let mut st = String::from("ab");
                            let r = rd.read_to_string(&mut st);
                            let b = st.into_bytes();
                            (r, b[2.min(b.len())..].to_vec())
                        }
                        "read_exact" => {
                            let mut v = vec![0x55u8; n];
                            let r = rd.read_exact(&mut v).map(|_| n);
                            (r, v)
                        }
                        "read_until" => {
                            let mut v = Vec::new();
                            let r = rd.read_until(delim, &mut v);
                            (r, v)
                        }
                        _ => {
                            let mut v = Vec::new();
                            for b in rd.bytes().take(n) {
                                match b {
                                    Ok(x) => v.push(x),
                                    Err(e) => return (Err(e), v),
                                }
                            }
                            let l = v.len();
                            (Ok(l), v)
                        }
                    }
                }));
                cx.hit("reader_std_method");
                match r {
                    Err(p) => {
                        cx.v(&["C12"], "reader-panicked", format!("Reader::{} panicked: {}", m, rt::panic_message(&*p)));
                        Flow::End
                    }
                    Ok((res, got)) => {
                        // what a reader that transfers min(available, requested) and never fails must give
                        let want: Option<Vec<u8>> = match m.as_str() {
                            "read_to_end" => Some(rest.clone()),
                            "read_to_string" => if utf8_ok { Some(rest.clone()) } else { None },
                            "read_exact" => if n <= rest.len() { Some(rest[..n].to_vec()) } else { None },
                            "read_until" => Some(match rest.iter().position(|&b| b == delim) { Some(i) => rest[..=i].to_vec(), None => rest.clone() }),
                            _ => Some(rest[..n.min(rest.len())].to_vec()),
                        };
                        match (res, want) {
                            (Ok(cnt), Some(w)) => {
                                if cnt != w.len() || got != w {
                                    cx.v(&["C12"], "reader-std-result", format!("Reader::{}: returned Ok({}) with {} bytes delivered; expected {} bytes (the next bytes of the sequence)", m, cnt, got.len(), w.len()));
                                    Flow::End
                                } else {
                                    if m == "read_to_string" && !rest.is_ascii() {
                                        cx.hit("read_to_string_non_ascii");
                                    }
                                    rest.drain(..w.len());
                                    Flow::Continue
                                }
                            }
                            (Err(e), Some(w)) => {
                                cx.v(&["C12"], "reader-failed", format!("Reader::{} returned Err({}) although {} bytes were there to deliver", m, e, w.len()));
                                Flow::End
                            }
                            (Ok(cnt), None) => {
                                cx.v(&["C12"], "reader-std-result", format!("Reader::{} returned Ok({}) although the stream {}", m, cnt, if m == "read_exact" { "is shorter than the request" } else { "is not valid UTF-8" }));
                                Flow::End
                            }
                            // a short read_exact / invalid UTF-8: an error is the specified outcome; how much was consumed is unspecified
                            (Err(_), None) => Flow::End,
                        }
                    }
                }
            }
            "take_tmp" => {
                let lim = op.us("lim");
                let inner = op.get("inner").cloned().unwrap_or(J::obj());
                let vis = lim.min(rest.len());
                let mut sub: Vec<u8> = rest[..vis].to_vec();
                let n_before_viol = cx.viol.len();
                let (flow, left_lim, inner_rem) = {
                    let mut t = (&mut node).take(lim);
                    check_state(&mut cx, &t, &sub, "take(tmp)");
                    let f = if cx.viol.len() == n_before_viol { do_op(&mut cx, &mut t, &mut sub, &inner, "take(tmp)") } else { Flow::End };
                    if cx.viol.len() == n_before_viol {
                        if let Flow::Continue = f {
                            check_state(&mut cx, &t, &sub, "take(tmp) after op");
                        }
                    }
                    (f, t.limit(), t.get_ref().remaining())
                };
                for v in cx.viol[n_before_viol..].iter_mut() {
                    if !v.props.contains(&"C12") {
                        v.props.push("C12");
                    }
                }
                let went = vis - sub.len();
                if let Flow::Continue = flow {
                    if cx.viol.len() == n_before_viol {
                        if left_lim != lim - went {
                            cx.v(&["C12"], "take-limit-bookkeeping", format!("take({}) after {} bytes went through ({}): limit() = {}", lim, went, inner.dump(), left_lim));
                        }
                        if inner_rem != rest.len() - went {
                            cx.v(&["C12"], "take-inner-advanced", format!("take({}) after {} bytes went through ({}): inner has {} left, expected {}", lim, went, inner.dump(), inner_rem, rest.len() - went));
                        }
                    }
                }
                if lim < before && went == vis && vis > 0 {
                    cx.hit("take_limit_reached");
                }
                rest.drain(..went);
                flow
            }
            "chain_tmp" => {
                let extra = Rng::new(op.u64("seed")).bytes(op.us("n").min(64));
                let inner = op.get("inner").cloned().unwrap_or(J::obj());
                let mut sub: Vec<u8> = rest.clone();
                sub.extend_from_slice(&extra);
                let total = sub.len();
                let n_before_viol = cx.viol.len();
                let (flow, a_rem, b_rem) = {
                    let mut c = (&mut node).chain(&extra[..]);
                    check_state(&mut cx, &c, &sub, "chain(tmp)");
                    let f = if cx.viol.len() == n_before_viol { do_op(&mut cx, &mut c, &mut sub, &inner, "chain(tmp)") } else { Flow::End };
                    if cx.viol.len() == n_before_viol {
                        if let Flow::Continue = f {
                            check_state(&mut cx, &c, &sub, "chain(tmp) after op");
                        }
                    }
                    (f, c.first_ref().remaining(), c.last_ref().remaining())
                };
                for v in cx.viol[n_before_viol..].iter_mut() {
                    if !v.props.contains(&"C12") {
                        v.props.push("C12");
                    }
                }
                let went = total - sub.len();
                let went_a = went.min(rest.len());
                if let Flow::Continue = flow {
                    if cx.viol.len() == n_before_viol {
                        if a_rem != rest.len() - went_a || b_rem != extra.len() - (went - went_a) {
                            cx.v(
                                &["C12"],
                                "chain-halves-advanced",
                                format!("chain(a: {} left, b: {} bytes) after {} went through ({}): a has {}, b has {}", rest.len(), extra.len(), went, inner.dump(), a_rem, b_rem),
                            );
                        }
                    }
                }
                if went > went_a {
                    cx.hit("chain_crossed_boundary");
                }
                rest.drain(..went_a);
                flow
            }
            "set_limit" => {
                if let Node::Take(t) = &mut node {
                    let lim = op.us("lim");
                    t.set_limit(lim);
                    lim_now = lim as u128;
                    rest = inner_rest[..lim.min(inner_rest.len())].to_vec();
                    cx.hit("set_limit");
                }
                Flow::Continue
            }
            "chain_refill" => {
                if let Node::Chain(c) = &mut node {
                    let a_rem = c.first_ref().remaining();
                    let side = op.us("side");
                    let x = Rng::new(op.u64("seed")).bytes(op.us("n").min(64));
                    let back = op.us("back");
                    let target: &mut Node = if side == 0 { c.first_mut() } else { c.last_mut() };
                    let t_rem = target.remaining();
                    let base = if side == 0 { 0 } else { a_rem };
                    // (insertion index, inserted bytes)
                    let ins: Option<(usize, Vec<u8>)> = match target {
                        Node::BytesMut(m) => {
                            m.extend_from_slice(&x);
                            Some((base + t_rem, x))
                        }
                        Node::Deque(d) => {
                            d.extend(x.iter().copied());
                            Some((base + t_rem, x))
                        }
                        Node::CursorVec(cu) => {
                            let len = cu.get_ref().len() as u64;
                            let pos = cu.position().min(len);
                            let np = pos.saturating_sub(back as u64);
                            let again = cu.get_ref()[np as usize..pos as usize].to_vec();
                            cu.set_position(np);
                            Some((base, again))
                        }
                        _ => None,
                    };
                    if let Some((at, bytes)) = ins {
                        if at <= rest.len() && base + t_rem <= rest.len() {
                            rest.splice(at..at, bytes);
                            refilled = true;
                            cx.hit(if side == 0 { "chain_first_refilled" } else { "chain_last_refilled" });
                            if side == 0 && t_rem == 0 && a_rem == 0 && rest.len() > 0 {
                                cx.hit("chain_first_refilled_after_drained");
                            }
                        } else {
                            // the halves disagree with the model already; the state check reports it
                            refilled = true;
                        }
                    }
                }
                Flow::Continue
            }
            "get_mut_advance" => {
                if let Node::Take(t) = &mut node {
                    let n = op.us("n").min(inner_rest.len());
                    t.get_mut().advance(n);
                    inner_rest.drain(..n);
                    direct += n;
                    rest = inner_rest[..(lim_now.min(inner_rest.len() as u128)) as usize].to_vec();
                }
                Flow::Continue
            }
            "into_iter" => {
                let kk = op.us("k").min(rest.len());
                let len = rest.len();
                let taken = std::mem::replace(&mut node, Node::Slice(&[]));
                let nth_calls: Vec<usize> = op.arr("nth").iter().map(|j| j.as_int() as usize).collect();
                let r = catch_unwind(AssertUnwindSafe(move || {
                    let mut it = IntoIter::new(taken);
                    let h0 = it.size_hint();
                    let mut got = Vec::new();
                    for _ in 0..kk {
                        match it.next() {
                            Some(b) => got.push(b),
                            None => break,
                        }
                    }
                    let h1 = it.size_hint();
                    // then nth(j) (0 = plain next) calls, each followed by len()
                    let mut proto: Vec<(Option<u8>, usize)> = Vec::new();
                    for &j in nth_calls.iter() {
                        let v = if j == 0 { it.next() } else { it.nth(j - 1) };
                        proto.push((v, it.len()));
                    }
                    let mut tail = Vec::new();
                    let inner = it.into_inner();
                    (h0, got, h1, inner.remaining(), proto, {
                        tail.extend_from_slice(inner.chunk());
                        tail
                    })
                }));
                consumed_iter = true;
                match r {
                    Ok((h0, got, h1, rem, proto, _tail)) => {
                        // model: a slice iterator over the same bytes
                        let mut mi = rest[kk..].iter().copied();
                        let want: Vec<(Option<u8>, usize)> = op.arr("nth").iter().map(|j| { let j = j.as_int() as usize; let v = if j == 0 { mi.next() } else { mi.nth(j - 1) }; (v, mi.len()) }).collect();
                        if got[..] != rest[..kk] || h0 != (len, Some(len)) || h1 != (len - kk, Some(len - kk)) || rem != mi.len() {
                            cx.law("into_iter", format!("into_iter: {} items of {} requested, size_hint {:?} -> {:?}, {} left (expected {})", got.len(), kk, h0, h1, rem, mi.len()));
                        } else if proto != want {
                            cx.law("into_iter-nth", format!("into_iter: next/nth script {} returned (item, len) {:?}, a slice iterator gives {:?}", J::Arr(op.arr("nth").to_vec()).dump(), proto, want));
                        }
                    }
                    Err(p) => cx.law("into_iter-panicked", format!("into_iter panicked: {}", rt::panic_message(&*p))),
                }
                Flow::End
            }
            _ => do_op(&mut cx, &mut node, &mut rest, &op, "nest"),
        };
        let went = before.saturating_sub(rest.len());
        if root_is_take && !matches!(name.as_str(), "set_limit" | "get_mut_advance") {
            through += went;
            inner_rest.drain(..went.min(inner_rest.len()));
            lim_now = lim_now.saturating_sub(went as u128);
        }
        digest.str(&name);
        digest.u64(rest.len() as u64);
        digest.u64(rt::fnv(&rest));
        match flow {
            Flow::End => ended = true,
            Flow::Continue => {
                if cx.viol.is_empty() {
                    check_state(&mut cx, &node, &rest, &format!("after {}", op.dump()));
                    if name == "get" {
                        // a cursor that is not exactly size_of::<X>() bytes further (or not untouched
                        // after Err / a refusing panic) contradicts the typed-read property as well
                        for v in cx.viol.iter_mut() {
                            if !v.props.contains(&"C10") {
                                v.props.push("C10");
                            }
                        }
                    }
                }
                if cx.viol.is_empty() && root_is_take {
                    if let Node::Take(t) = &node {
                        if t.limit() as u128 != lim_now {
                            cx.v(&["C12"], "take-limit-bookkeeping", format!("root take: limit() = {} but {} expected after {}", t.limit(), lim_now, op.dump()));
                        }
                        if t.get_ref().remaining() != inner_rest.len() {
                            cx.v(&["C12"], "take-inner-advanced", format!("root take: get_ref().remaining() = {} but {} expected after {}", t.get_ref().remaining(), inner_rest.len(), op.dump()));
                        }
                    }
                }
            }
        }
    }

    // deep inspection: every inner buffer advanced by exactly what went through (C12)
    if cx.viol.is_empty() && !ended && !consumed_iter && !refilled {
        let total = expose(plan).len();
        let consumed = total - rest.len().min(total);
        let mut d = Deep { problems: Vec::new(), leaves_checked: 0, adapters_checked: 0 };
        let r = catch_unwind(AssertUnwindSafe(|| {
            if root_is_take {
                if let Node::Take(t) = node {
                    deep_inspect(t.into_inner(), plan.get("in").unwrap(), through + direct, &mut d, "root.in");
                }
            } else {
                deep_inspect(node, plan, consumed, &mut d, "root");
            }
            d
        }));
        match r {
            Ok(d) => {
                *cx.probes.entry("deep_leaves_checked").or_insert(0) += d.leaves_checked as u64;
                *cx.probes.entry("deep_adapters_checked").or_insert(0) += d.adapters_checked as u64;
                for p in d.problems {
                    cx.v(&["C12"], "inner-buffer-not-advanced-exactly", p);
                }
            }
            Err(p) => cx.v(&["C12", "C09"], "deep-inspection-panicked", format!("taking the nest apart panicked: {}", rt::panic_message(&*p))),
        }
    }
    let _ = cx.plan;
    ReadRun { viol: cx.viol, steps: ops_done.len(), ops: ops_done, straddles: cx.straddles, shortfalls: cx.shortfalls, panics: cx.panics, probes: cx.probes, digest }
}

// ------------------------------------------------------------------ chunks of 4 GiB and more

/// The cursor laws on chunks whose length does not fit 32 bits (lazily zeroed memory straight
/// from the system allocator, never read): remaining / chunk / chunks_vectored / advance must
/// not depend on a length fitting in a u32. Run once per batch of the `laws` profile.
pub fn huge_laws(probes: &mut std::collections::BTreeMap<&'static str, u64>) -> Vec<Violation> {
    let mut out: Vec<Violation> = Vec::new();
    #[cfg(all(target_pointer_width = "64", not(miri)))]
    {
        use std::alloc::{GlobalAlloc, Layout, System};
        struct Region {
            p: *mut u8,
            n: usize,
        }
        unsafe impl Send for Region {}
        impl AsRef<[u8]> for Region {
            fn as_ref(&self) -> &[u8] {
                unsafe { std::slice::from_raw_parts(self.p, self.n) }
            }
        }
        impl Drop for Region {
            fn drop(&mut self) {
                unsafe { System.dealloc(self.p, Layout::from_size_align(self.n, 1).unwrap()) }
            }
        }
        fn vectored<B: Buf>(what: &str, b: &B, out: &mut Vec<Violation>) {
            let mut io = [IoSlice::new(&[]); 4];
            let n = b.chunks_vectored(&mut io);
            let total: u128 = io[..n.min(4)].iter().map(|s| s.len() as u128).sum();
            let rem = b.remaining();
            if rem > 0 && (n == 0 || n > 4 || total == 0 || total > rem as u128 || io[0].as_ptr() != b.chunk().as_ptr()) {
                out.push(Violation { props: vec!["C09"], kind: "huge-chunk:chunks_vectored".into(), detail: format!("{}: {} bytes remain, chunk() has {}, chunks_vectored filled {} slices with {} bytes in total", what, rem, b.chunk().len(), n, total), step: 0 });
            }
        }
        fn check<B: Buf>(what: &str, b: &mut B, total: usize, contiguous: usize, adv: usize, out: &mut Vec<Violation>) {
            let r = catch_unwind(AssertUnwindSafe(|| {
                let mut o = Vec::new();
                if b.remaining() != total {
                    o.push(Violation { props: vec!["C09"], kind: "huge-chunk:remaining".into(), detail: format!("{}: remaining() = {} for a sequence of {} bytes", what, b.remaining(), total), step: 0 });
                }
                if contiguous > 0 && b.chunk().len() != contiguous {
                    o.push(Violation { props: vec!["C09"], kind: "huge-chunk:chunk".into(), detail: format!("{}: chunk() has {} bytes, the contiguous part has {}", what, b.chunk().len(), contiguous), step: 0 });
                }
                vectored(what, b, &mut o);
                b.advance(adv);
                if b.remaining() != total - adv {
                    o.push(Violation { props: vec!["C09"], kind: "huge-chunk:advance".into(), detail: format!("{}: after advance({}) remaining() = {} (expected {})", what, adv, b.remaining(), total - adv), step: 0 });
                }
                vectored(what, b, &mut o);
                let left = b.remaining();
                if left > 1 {
                    b.advance(left - 1);
                    if b.remaining() != 1 || b.chunk().len() != 1 {
                        o.push(Violation { props: vec!["C09"], kind: "huge-chunk:advance".into(), detail: format!("{}: after advancing to the last byte remaining() = {}, chunk() has {}", what, b.remaining(), b.chunk().len()), step: 0 });
                    }
                }
                o
            }));
            match r {
                Ok(o) => out.extend(o),
                Err(p) => out.push(Violation { props: vec!["C09"], kind: "huge-chunk:panicked".into(), detail: format!("{}: {}", what, rt::panic_message(&*p)), step: 0 }),
            }
        }
        for &(size, adv) in &[(1usize << 32, 0usize), ((1 << 32) + 5, 5), ((1 << 33) + 3, 3), ((1 << 32) - 1, 0), ((1 << 32) + 1, 0)] {
            let p = unsafe { System.alloc_zeroed(Layout::from_size_align(size, 1).unwrap()) };
            if p.is_null() {
                *probes.entry("huge_chunk_unavailable").or_insert(0) += 1;
                continue;
            }
            *probes.entry("huge_chunk_cases").or_insert(0) += 1;
            let reg = Region { p, n: size };
            let small = [7u8; 3];
            {
                let whole: &[u8] = reg.as_ref();
                let mut s = whole;
                check("&[u8] of 4 GiB+", &mut s, size, size, adv, &mut out);
                let mut c = std::io::Cursor::new(whole);
                check("Cursor<&[u8]> of 4 GiB+", &mut c, size, size, adv, &mut out);
                let mut t = Buf::take(whole, usize::MAX);
                check("Take<&[u8]> of 4 GiB+", &mut t, size, size, adv, &mut out);
                let mut t2 = Buf::take(whole, size - 1);
                check("Take<&[u8]> limited to len-1", &mut t2, size - 1, size - 1, adv, &mut out);
                let mut ch = Buf::chain(&small[..], whole);
                check("Chain<small, 4 GiB+>", &mut ch, size + 3, 3, adv + 3, &mut out);
                let mut ch2 = Buf::chain(whole, &small[..]);
                check("Chain<4 GiB+, small>", &mut ch2, size + 3, size, adv, &mut out);
                let mut s3 = whole;
                let mut bx: Box<dyn Buf + '_> = Box::new(&mut s3);
                check("Box<dyn Buf> over &mut &[u8]", &mut bx, size, size, adv, &mut out);
            }
            let mut b = bytes::Bytes::from_owner(reg);
            let mut b2 = b.clone();
            check("Bytes (from_owner) of 4 GiB+", &mut b, size, size, adv, &mut out);
            let mut c2 = std::io::Cursor::new(&mut b2);
            check("Cursor<&mut Bytes> of 4 GiB+", &mut c2, size, size, adv, &mut out);
            if !out.is_empty() {
                break;
            }
        }
    }
    let _ = probes;
    out
}
