//! E-buf: the stream simulator (DESIGN §2.3).
//!
//!   buf batch --seed S --tag T --from A --to B --profile laws|typed|adapters|write|byz --steps N [--journal F] [--emit F]
//!   buf replay FILE
//!   buf replay-many FILE

#[cfg(feature = "simalloc")]
#[global_allocator]
static GLOBAL: rt::alloc::SimAlloc = rt::alloc::SimAlloc;

mod byz;
mod gets;
mod node;
mod read;
mod write;

use std::collections::{BTreeMap, HashSet};
use std::io::Write as _;

use rt::journal::Journal;
use rt::{mix, Rng, Violation, J};

fn arg(args: &[String], k: &str) -> Option<String> {
    args.iter().position(|a| a == k).and_then(|i| args.get(i + 1).cloned())
}

pub struct Outcome {
    pub viol: Vec<Violation>,
    pub ops: Vec<J>,
    pub steps: usize,
    pub panics: u64,
    pub straddles: u64,
    pub shortfalls: u64,
    pub probes: BTreeMap<&'static str, u64>,
    pub digest: u64,
}

impl Outcome {
    fn deep_clone(&self) -> Outcome {
        Outcome {
            viol: self.viol.iter().map(|v| Violation { props: v.props.to_vec(), kind: v.kind.as_str().to_string(), detail: v.detail.as_str().to_string(), step: v.step }).collect(),
            ops: self.ops.iter().map(|o| J::parse(&o.dump()).unwrap()).collect(),
            steps: self.steps,
            panics: self.panics,
            straddles: self.straddles,
            shortfalls: self.shortfalls,
            probes: self.probes.iter().map(|(k, v)| (*k, *v)).collect(),
            digest: self.digest,
        }
    }
}

fn hexs(b: &[u8]) -> String {
    b.iter().map(|x| format!("{:02x}", x)).collect()
}

/// C10 stratified cell: (method, nbytes, position of a chunk boundary inside the value, shortfall).
/// A chain of 2-4 leaves that together hold one valid UTF-8 text, cut at arbitrary *byte*
/// positions (so multi-byte characters straddle chunk boundaries).
fn utf8_plan(rng: &mut Rng) -> J {
    let alphabet = ["a", "Z", " ", "\n", "0", "é", "ß", "€", "漢", "𝄞", "😀"];
    let mut text = String::new();
    for _ in 0..rng.range(1, 24) {
        text.push_str(*rng.pick(&alphabet));
    }
    let bytes = text.into_bytes();
    let pieces = rng.range(2, 4);
    let mut cuts: Vec<usize> = (0..pieces - 1).map(|_| rng.range(0, bytes.len())).collect();
    cuts.sort();
    cuts.insert(0, 0);
    cuts.push(bytes.len());
    let kinds = ["slice", "bytes_vec", "bytes_mut", "cursor_vec", "deque", "seg", "seg_default", "seg_fine", "bytes_shared"];
    let mk = |rng: &mut Rng, d: &[u8]| J::obj().set("k", *rng.pick(&kinds)).set("hex", hexs(d)).set("n", d.len()).set("seed", rng.next_u64()).set("pre", rng.range(0, 3));
    let mut plan = mk(rng, &bytes[cuts[pieces - 1]..cuts[pieces]]);
    for i in (0..pieces - 1).rev() {
        plan = J::obj().set("k", "chain").set("a", mk(rng, &bytes[cuts[i]..cuts[i + 1]])).set("b", plan);
    }
    plan
}

fn typed_grid(i: u64, rng: &mut Rng) -> (J, Vec<J>) {
    let mut names: Vec<String> = Vec::new();
    for t in ["get_", "try_get_"] {
        for f in gets::FIXED {
            names.push(format!("{}{}", t, f));
        }
        for f in gets::VAR {
            names.push(format!("{}{}", t, f));
        }
    }
    let m = &names[(i % names.len() as u64) as usize];
    let mut j = i / names.len() as u64;
    let meth = gets::parse(m).unwrap();
    let nb = if meth.var {
        let v = (j % 9) as usize;
        j /= 9;
        v
    } else {
        0
    };
    let size = if meth.var { nb } else { meth.size };
    // boundary position 0..=size (0 and size = no boundary inside), shortfall 0..=size
    let cut = (j % (size as u64 + 1)) as usize;
    j /= size as u64 + 1;
    let short = if j % 3 == 0 { (j / 3 % (size as u64 + 1)) as usize } else { 0 };
    // value bytes: sign-bit patterns plus random
    let mut val = vec![0u8; size];
    match rng.below(6) {
        0 => val.iter_mut().for_each(|b| *b = 0xff),
        1 => {
            if size > 0 {
                val[0] = 0x80
            }
        }
        2 => {
            if size > 0 {
                val[size - 1] = 0x80
            }
        }
        3 => val.iter_mut().for_each(|b| *b = 0x7f),
        _ => rng.fill(&mut val),
    }
    let have = size - short.min(size);
    let pre = rng.range(0, 3);
    let suf = if short > 0 { 0 } else { rng.range(0, 3) };
    let mut first = rng.bytes(pre);
    first.extend_from_slice(&val[..cut.min(have)]);
    let mut second = val[cut.min(have)..have].to_vec();
    second.extend_from_slice(&rng.bytes(suf));
    let kinds = ["slice", "bytes_vec", "bytes_mut", "cursor_vec", "deque", "seg", "bytes_shared", "cursor_slice"];
    let mk = |rng: &mut Rng, d: &[u8]| J::obj().set("k", *rng.pick(&kinds)).set("hex", hexs(d)).set("n", d.len()).set("seed", 0u64).set("pre", rng.range(0, 3));
    let mut plan = J::obj().set("k", "chain").set("a", mk(rng, &first)).set("b", mk(rng, &second));
    match rng.below(6) {
        0 => plan = J::obj().set("k", "mutref").set("in", plan),
        1 => plan = J::obj().set("k", "box").set("in", plan),
        2 => plan = J::obj().set("k", "dyn").set("in", plan),
        3 => {
            // a Take whose limit is at, just beyond, or exactly the missing bytes beyond what the inner holds
            let total = pre + have + suf;
            let lim = total + *rng.pick(&[0usize, 1, short, size]);
            plan = J::obj().set("k", "take").set("lim", lim).set("in", plan);
        }
        _ => {}
    }
    let ops = vec![J::obj().set("op", "advance").set("n", pre), J::obj().set("op", "get").set("m", m.as_str()).set("nb", nb)];
    (plan, ops)
}

fn run_one(mode: &str, focus: &str, plan: &J, given: Option<&[J]>, rng: &mut Rng, steps: usize, journal: &mut Journal) -> Outcome {
    match mode {
        "write" => {
            let r = write::run(plan, given, rng, steps, journal);
            Outcome { viol: r.viol, ops: r.ops, steps: r.steps, panics: r.panics, straddles: 0, shortfalls: 0, probes: r.probes, digest: r.digest.0 }
        }
        "byz" => byz::run(plan, given, rng, steps, journal),
        _ if plan.str("k") == Some("huge_laws") => {
            let mut probes: BTreeMap<&'static str, u64> = BTreeMap::new();
            let viol = read::huge_laws(&mut probes);
            Outcome { viol, ops: vec![], steps: 1, panics: 0, straddles: 0, shortfalls: 0, probes, digest: 0x4855_4745 }
        }
        _ => {
            let r = read::run(plan, given, rng, steps, focus, journal);
            Outcome { viol: r.viol, ops: r.ops, steps: r.steps, panics: r.panics, straddles: r.straddles, shortfalls: r.shortfalls, probes: r.probes, digest: r.digest.0 }
        }
    }
}

fn shape_hash(p: &J, f: &mut rt::Fnv) {
    f.str(p.str("k").unwrap_or(""));
    for k in ["a", "b", "in"] {
        if let Some(c) = p.get(k) {
            shape_hash(c, f);
        }
    }
    f.u64((p.us("n").min(3) + p.us("cap").min(3) * 4) as u64);
}

fn depth(p: &J) -> usize {
    1 + ["a", "b", "in"].iter().filter_map(|k| p.get(k)).map(depth).max().unwrap_or(0)
}

fn main() {
    std::env::set_var("RUST_BACKTRACE", "0");
    rt::silence_panics();
    let args: Vec<String> = std::env::args().collect();
    let mode = args.get(1).map(|s| s.as_str()).unwrap_or("");
    let out = std::io::stdout();
    match mode {
        "batch" => {
            let seed: u64 = arg(&args, "--seed").and_then(|s| s.parse().ok()).unwrap_or(1);
            let tag: u64 = arg(&args, "--tag").and_then(|s| s.parse().ok()).unwrap_or(0);
            let from: u64 = arg(&args, "--from").and_then(|s| s.parse().ok()).unwrap_or(0);
            let to: u64 = arg(&args, "--to").and_then(|s| s.parse().ok()).unwrap_or(1);
            let profile = arg(&args, "--profile").unwrap_or_else(|| "laws".into());
            let steps: usize = arg(&args, "--steps").and_then(|s| s.parse().ok()).unwrap_or(30);
            let max_viol: usize = arg(&args, "--max-viol").and_then(|s| s.parse().ok()).unwrap_or(5);
            let mut journal = match arg(&args, "--journal") {
                Some(p) => Journal::open(&p),
                None => Journal::none(),
            };
            let mut emit = arg(&args, "--emit").map(|p| std::fs::File::create(p).expect("emit file"));
            let (rmode, focus) = match profile.as_str() {
                "write" => ("write", ""),
                "byz" => ("byz", ""),
                "typed" => ("read", "typed"),
                "adapters" => ("read", "adapters"),
                _ => ("read", "laws"),
            };
            let mut total_steps = 0u64;
            let mut probes: BTreeMap<&'static str, u64> = BTreeMap::new();
            let mut nontrivial: HashSet<u64> = HashSet::new();
            let mut shapes: HashSet<u64> = HashSet::new();
            let (mut panics, mut straddles, mut shortfalls, mut viol_runs) = (0u64, 0u64, 0u64, 0usize);
            let mut samples: Vec<J> = Vec::new();
            for i in from..to {
                let run_seed = mix(&[seed, tag, i]);
                let mut rng = Rng::new(run_seed);
                rt::alloc::begin_run(rt::alloc::AllocCfg {
                    parity: *rng.pick(&[rt::alloc::Parity::Even, rt::alloc::Parity::Odd, rt::alloc::Parity::Mixed]),
                    realloc: *rng.pick(&[rt::alloc::ReallocMode::Move, rt::alloc::ReallocMode::InPlace, rt::alloc::ReallocMode::Mixed]),
                    seed: run_seed,
                    quarantine_cap: 64 << 20,
                });
                let (plan, given): (J, Option<Vec<J>>) = match (rmode, focus) {
                    ("write", _) => {
                        let d = rng.range(0, 4);
                        (write::gen_wplan(&mut rng, d), None)
                    }
                    ("byz", _) => (byz::gen_case(&mut rng, i), None),
                    ("read", "typed") if i % 2 == 0 => {
                        let (p, o) = typed_grid(i / 2, &mut rng);
                        (p, Some(o))
                    }
                    // run 0 of the `laws` profile: chunks of 4 GiB and more (not under a sanitizer's allocator)
                    ("read", "laws") if i == 0 && !cfg!(feature = "asan") => (J::obj().set("k", "huge_laws"), Some(Vec::new())),
                    ("read", f) if f != "typed" && rng.chance(1, 12) => (utf8_plan(&mut rng), None),
                    _ => {
                        let d = rng.range(0, 4);
                        (node::gen_plan(&mut rng, d, 60), None)
                    }
                };
                journal.reset(&J::obj().set("run", i).set("seed", run_seed).set("profile", profile.as_str()).set("cfg", J::obj()).set("plan", plan.clone()).dump());
                if let Some(g) = &given {
                    for o in g {
                        journal.line(&o.dump());
                    }
                }
                let r = {
                    let tracked = rt::alloc::track(|| run_one(rmode, focus, &plan, given.as_deref(), &mut rng, steps, &mut journal));
                    // results were allocated under tracking: copy them out before the leak check
                    let copy = rt::alloc::untracked(|| tracked.deep_clone());
                    drop(tracked);
                    copy
                };
                rt::alloc::verify(true);
                let mut viol = r.viol;
                for m in rt::alloc::take_violations() {
                    let props: &[&'static str] = if rmode == "byz" { &["C17"] } else { &["C02", "C11"] };
                    viol.push(Violation { props: props.to_vec(), kind: format!("alloc:{}", m.split(':').next().unwrap_or("")), detail: m, step: r.steps.saturating_sub(1) });
                }
                let leaked = rt::alloc::live_blocks();
                if !leaked.is_empty() && viol.is_empty() {
                    let props: &[&'static str] = if rmode == "byz" { &["C17"] } else { &["C03"] };
                    viol.push(Violation {
                        props: props.to_vec(),
                        kind: "leak".into(),
                        detail: format!("{} blocks still allocated after the run (first: size {}, align {})", leaked.len(), leaked[0].size, leaked[0].align),
                        step: r.steps.saturating_sub(1),
                    });
                }
                total_steps += r.steps as u64;
                panics += r.panics;
                straddles += r.straddles;
                shortfalls += r.shortfalls;
                for (k, v) in &r.probes {
                    *probes.entry(k).or_insert(0) += v;
                }
                let mut f = rt::Fnv::default();
                shape_hash(&plan, &mut f);
                shapes.insert(f.0);
                let nontriv = depth(&plan) >= 2 || r.straddles > 0 || rmode == "byz";
                if nontriv {
                    let mut g = rt::Fnv::default();
                    g.u64(f.0);
                    g.u64(r.digest);
                    nontrivial.insert(g.0);
                }
                if samples.len() < 2 && nontriv && viol.is_empty() && r.steps > 2 {
                    samples.push(J::obj().set("run", i).set("seed", run_seed).set("plan", plan.clone()).set("ops", J::Arr(r.ops.clone())));
                }
                if let Some(f) = emit.as_mut() {
                    let rec = J::obj().set("run", i).set("seed", run_seed).set("profile", profile.as_str()).set("plan", plan.clone()).set("ops", J::Arr(r.ops.clone())).set("digest", r.digest).set("vkinds", J::Arr(viol.iter().take(1).map(|v| J::from(v.kind.as_str())).collect())).set("violated", !viol.is_empty());
                    let _ = writeln!(f, "{}", rec.dump());
                }
                if !viol.is_empty() {
                    viol_runs += 1;
                    let rec = J::obj()
                        .set("type", "violation")
                        .set("engine", "buf")
                        .set("profile", profile.as_str())
                        .set("run", i)
                        .set("seed", run_seed)
                        .set("cfg", J::obj())
                        .set("plan", plan.clone())
                        .set("ops", J::Arr(r.ops.clone()))
                        .set("violations", J::Arr(viol.iter().map(|v| v.to_json()).collect()));
                    let _ = writeln!(out.lock(), "{}", rec.dump());
                    if viol_runs >= max_viol {
                        break;
                    }
                }
            }
            let mut pj = J::obj();
            for (k, v) in &probes {
                pj.put(k, *v);
            }
            let sum = J::obj()
                .set("type", "summary")
                .set("runs", to - from)
                .set("steps", total_steps)
                .set("viol_runs", viol_runs)
                .set("oob_steps", shortfalls)
                .set("panics", panics)
                .set("x_straddles", straddles)
                .set("x_shortfalls", shortfalls)
                .set("probes", pj)
                .set("alloc", J::obj())
                .set("nontrivial", J::Arr(nontrivial.iter().map(|x| J::from(*x)).collect()))
                .set("state_sample", J::Arr(shapes.iter().map(|x| J::from(*x)).collect()))
                .set("samples", J::Arr(samples));
            let _ = writeln!(out.lock(), "{}", sum.dump());
        }
        "replay" | "replay-many" => {
            let path = args.get(2).expect("replay FILE");
            let txt = std::fs::read_to_string(path).expect("read replay file");
            let recs: Vec<J> = if mode == "replay" { vec![J::parse(&txt).expect("parse replay file")] } else { txt.lines().filter(|l| !l.trim().is_empty()).map(|l| J::parse(l).expect("parse line")).collect() };
            let mut any = false;
            for rec in recs {
                let profile = rec.str("profile").unwrap_or("laws").to_string();
                let (rmode, focus) = match profile.as_str() {
                    "write" => ("write", ""),
                    "byz" => ("byz", ""),
                    "typed" => ("read", "typed"),
                    "adapters" => ("read", "adapters"),
                    _ => ("read", "laws"),
                };
                let plan = rec.get("plan").cloned().unwrap_or(J::obj());
                let ops: Vec<J> = rec.arr("ops").to_vec();
                let mut rng = Rng::new(rec.u64("seed"));
                rt::alloc::begin_run(rt::alloc::AllocCfg { parity: rt::alloc::Parity::Mixed, realloc: rt::alloc::ReallocMode::Mixed, seed: rec.u64("seed"), quarantine_cap: 64 << 20 });
                let mut journal = Journal::none();
                let r = {
                    let tracked = rt::alloc::track(|| run_one(rmode, focus, &plan, Some(&ops), &mut rng, ops.len(), &mut journal));
                    let copy = rt::alloc::untracked(|| tracked.deep_clone());
                    drop(tracked);
                    copy
                };
                rt::alloc::verify(true);
                let mut viol = r.viol;
                for m in rt::alloc::take_violations() {
                    let props: &[&'static str] = if rmode == "byz" { &["C17"] } else { &["C02", "C11"] };
                    viol.push(Violation { props: props.to_vec(), kind: format!("alloc:{}", m.split(':').next().unwrap_or("")), detail: m, step: r.steps.saturating_sub(1) });
                }
                let leaked = rt::alloc::live_blocks();
                if !leaked.is_empty() && viol.is_empty() {
                    let props: &[&'static str] = if rmode == "byz" { &["C17"] } else { &["C03"] };
                    viol.push(Violation { props: props.to_vec(), kind: "leak".into(), detail: format!("{} blocks still allocated after the run", leaked.len()), step: r.steps.saturating_sub(1) });
                }
                if !viol.is_empty() {
                    any = true;
                }
                let o = J::obj()
                    .set("type", "replay")
                    .set("run", rec.u64("run"))
                    .set("steps", r.steps)
                    .set("digest", r.digest)
                    .set("violations", J::Arr(viol.iter().map(|v| v.to_json()).collect()));
                let _ = writeln!(out.lock(), "{}", o.dump());
            }
            std::process::exit(if any && mode == "replay" { 1 } else { 0 });
        }
        _ => {
            eprintln!("usage: buf batch|replay|replay-many ...");
            std::process::exit(2);
        }
    }
}
