fn main() {}
