//! E-buf write side (C11, C12): targets are nests of every `BufMut` implementor of the
//! crate; fixed-size leaves live inside guard-byte frames; the model is the appended
//! byte string plus a capacity tree.

use std::io::Write;
use std::mem::MaybeUninit;
use std::panic::{catch_unwind, AssertUnwindSafe};

use bytes::buf::{Chain, Limit, UninitSlice};
use bytes::{Buf, BufMut, BytesMut};
use rt::{Rng, Violation, J};

use crate::gets;
use crate::node;

pub const GUARD: usize = 8;
pub const GUARD_BYTE: u8 = 0x5A;
pub const FILL: u8 = 0xEE;

/// Honest user-defined BufMut over fixed-size segments separated by guard bytes.
pub struct SegBufMut {
    pub store: Vec<u8>,
    pub segs: Vec<(usize, usize)>, // (offset in store, len)
    pub i: usize,
    pub off: usize,
}
impl SegBufMut {
    pub fn new(sizes: &[usize]) -> SegBufMut {
        let mut store = vec![GUARD_BYTE; GUARD];
        let mut segs = Vec::new();
        for &s in sizes {
            segs.push((store.len(), s));
            store.extend(std::iter::repeat(FILL).take(s));
            store.extend(std::iter::repeat(GUARD_BYTE).take(GUARD));
        }
        let mut r = SegBufMut { store, segs, i: 0, off: 0 };
        r.skip();
        r
    }
    fn skip(&mut self) {
        while self.i < self.segs.len() && self.off >= self.segs[self.i].1 {
            self.i += 1;
            self.off = 0;
        }
    }
    pub fn total(&self) -> usize {
        self.segs.iter().map(|s| s.1).sum()
    }
    pub fn filled(&self) -> usize {
        let mut n = 0;
        for k in 0..self.i.min(self.segs.len()) {
            n += self.segs[k].1;
        }
        n + if self.i < self.segs.len() { self.off } else { 0 }
    }
    pub fn payload(&self) -> Vec<u8> {
        let mut v = Vec::new();
        for &(o, l) in &self.segs {
            v.extend_from_slice(&self.store[o..o + l]);
        }
        v
    }
    pub fn guards_ok(&self) -> bool {
        let mut pos = 0;
        for &(o, l) in &self.segs {
            if self.store[pos..o].iter().any(|&b| b != GUARD_BYTE) {
                return false;
            }
            pos = o + l;
        }
        self.store[pos..].iter().all(|&b| b == GUARD_BYTE)
    }
}
unsafe impl BufMut for SegBufMut {
    fn remaining_mut(&self) -> usize {
        self.total() - self.filled()
    }
    unsafe fn advance_mut(&mut self, mut cnt: usize) {
        assert!(cnt <= self.remaining_mut(), "SegBufMut: advance_mut past end");
        while cnt > 0 {
            let left = self.segs[self.i].1 - self.off;
            let t = left.min(cnt);
            self.off += t;
            cnt -= t;
            self.skip();
        }
        self.skip();
    }
    fn chunk_mut(&mut self) -> &mut UninitSlice {
        if self.i < self.segs.len() {
            let (o, l) = self.segs[self.i];
            UninitSlice::new(&mut self.store[o + self.off..o + l])
        } else {
            UninitSlice::new(&mut [])
        }
    }
}

pub enum NodeMut<'a> {
    Vec(Vec<u8>),
    BytesMut(BytesMut),
    Slice(&'a mut [u8]),
    Uninit(&'a mut [MaybeUninit<u8>]),
    Seg(SegBufMut),
    Chain(Box<Chain<NodeMut<'a>, NodeMut<'a>>>),
    Limit(Box<Limit<NodeMut<'a>>>),
    MutRef(Box<NodeMut<'a>>),
    Boxed(Box<NodeMut<'a>>),
}

macro_rules! wfwd {
    ($self:ident, $m:ident ( $($a:expr),* )) => {
        match $self {
            NodeMut::Vec(x) => x.$m($($a),*),
            NodeMut::BytesMut(x) => x.$m($($a),*),
            NodeMut::Slice(x) => x.$m($($a),*),
            NodeMut::Uninit(x) => x.$m($($a),*),
            NodeMut::Seg(x) => x.$m($($a),*),
            NodeMut::Chain(x) => x.$m($($a),*),
            NodeMut::Limit(x) => x.$m($($a),*),
            NodeMut::MutRef(x) => {
                let mut r: &mut NodeMut<'a> = &mut **x;
                BufMut::$m(&mut r $(, $a)*)
            }
            NodeMut::Boxed(x) => BufMut::$m(x $(, $a)*),
        }
    };
}
macro_rules! wfwd_puts {
    ($( $name:ident : $t:ty ),* $(,)?) => {
        $( fn $name(&mut self, n: $t) { wfwd!(self, $name(n)) } )*
    };
}
macro_rules! wfwd_puts_n {
    ($( $name:ident : $t:ty ),* $(,)?) => {
        $( fn $name(&mut self, n: $t, nbytes: usize) { wfwd!(self, $name(n, nbytes)) } )*
    };
}

unsafe impl<'a> BufMut for NodeMut<'a> {
    fn remaining_mut(&self) -> usize {
        match self {
            NodeMut::Vec(x) => x.remaining_mut(),
            NodeMut::BytesMut(x) => x.remaining_mut(),
            NodeMut::Slice(x) => x.remaining_mut(),
            NodeMut::Uninit(x) => x.remaining_mut(),
            NodeMut::Seg(x) => x.remaining_mut(),
            NodeMut::Chain(x) => x.remaining_mut(),
            NodeMut::Limit(x) => x.remaining_mut(),
            NodeMut::MutRef(x) => (**x).remaining_mut(),
            NodeMut::Boxed(x) => BufMut::remaining_mut(x),
        }
    }
    fn has_remaining_mut(&self) -> bool {
        match self {
            NodeMut::Vec(x) => x.has_remaining_mut(),
            NodeMut::BytesMut(x) => x.has_remaining_mut(),
            NodeMut::Slice(x) => x.has_remaining_mut(),
            NodeMut::Uninit(x) => x.has_remaining_mut(),
            NodeMut::Seg(x) => x.has_remaining_mut(),
            NodeMut::Chain(x) => x.has_remaining_mut(),
            NodeMut::Limit(x) => x.has_remaining_mut(),
            NodeMut::MutRef(x) => (**x).has_remaining_mut(),
            NodeMut::Boxed(x) => BufMut::has_remaining_mut(x),
        }
    }
    unsafe fn advance_mut(&mut self, cnt: usize) {
        wfwd!(self, advance_mut(cnt))
    }
    fn chunk_mut(&mut self) -> &mut UninitSlice {
        match self {
            NodeMut::Vec(x) => x.chunk_mut(),
            NodeMut::BytesMut(x) => x.chunk_mut(),
            NodeMut::Slice(x) => x.chunk_mut(),
            NodeMut::Uninit(x) => x.chunk_mut(),
            NodeMut::Seg(x) => x.chunk_mut(),
            NodeMut::Chain(x) => x.chunk_mut(),
            NodeMut::Limit(x) => x.chunk_mut(),
            // the returned borrow cannot outlive a temporary `&mut &mut T`; forward directly
            NodeMut::MutRef(x) => (**x).chunk_mut(),
            NodeMut::Boxed(x) => BufMut::chunk_mut(x),
        }
    }
    fn put<T: Buf>(&mut self, src: T)
    where
        Self: Sized,
    {
        match self {
            NodeMut::Vec(x) => x.put(src),
            NodeMut::BytesMut(x) => x.put(src),
            NodeMut::Slice(x) => x.put(src),
            NodeMut::Uninit(x) => x.put(src),
            NodeMut::Seg(x) => x.put(src),
            // (**x): the adapter's own `put`, not the default one of `Box<T>`. The source is passed
            // as `&mut dyn Buf`: an adapter that wraps its source (say in a `Take`) before handing it on
            // would otherwise make this recursive nest instantiate `put` at ever deeper types
            NodeMut::Chain(x) => {
                let mut s = src;
                let d: &mut dyn Buf = &mut s;
                (**x).put(d)
            }
            NodeMut::Limit(x) => {
                let mut s = src;
                let d: &mut dyn Buf = &mut s;
                (**x).put(d)
            }
            NodeMut::MutRef(x) => {
                let mut r: &mut NodeMut<'a> = &mut **x;
                BufMut::put(&mut r, src)
            }
            NodeMut::Boxed(x) => BufMut::put(x, src),
        }
    }
    fn put_slice(&mut self, src: &[u8]) {
        wfwd!(self, put_slice(src))
    }
    fn put_bytes(&mut self, val: u8, cnt: usize) {
        wfwd!(self, put_bytes(val, cnt))
    }
    wfwd_puts! {
        put_u8: u8, put_i8: i8,
        put_u16: u16, put_u16_le: u16, put_u16_ne: u16, put_i16: i16, put_i16_le: i16, put_i16_ne: i16,
        put_u32: u32, put_u32_le: u32, put_u32_ne: u32, put_i32: i32, put_i32_le: i32, put_i32_ne: i32,
        put_u64: u64, put_u64_le: u64, put_u64_ne: u64, put_i64: i64, put_i64_le: i64, put_i64_ne: i64,
        put_u128: u128, put_u128_le: u128, put_u128_ne: u128, put_i128: i128, put_i128_le: i128, put_i128_ne: i128,
        put_f32: f32, put_f32_le: f32, put_f32_ne: f32, put_f64: f64, put_f64_le: f64, put_f64_ne: f64,
    }
    wfwd_puts_n! {
        put_uint: u64, put_uint_le: u64, put_uint_ne: u64, put_int: i64, put_int_le: i64, put_int_ne: i64,
    }
}

// ------------------------------------------------------------------ plans & capacity model

pub fn gen_wplan(rng: &mut Rng, depth: usize) -> J {
    let leafy = depth == 0 || rng.chance(2, 5);
    if leafy {
        let k = *rng.pick(&["vec", "vec", "bytes_mut", "bytes_mut", "bytes_mut_arc", "slice", "slice", "uninit", "uninit", "seg", "seg"]);
        let cap = match rng.below(8) {
            0 => 0,
            1 => 1,
            2 => rng.range(1, 8),
            3 => rng.range(8, 17),
            _ => rng.range(0, 120),
        };
        let mut j = J::obj().set("k", k).set("cap", cap);
        match k {
            "vec" | "bytes_mut" => {
                // initial contents and spare capacity (so growth is or is not triggered)
                j = j.set("init", rng.range(0, 20)).set("seed", rng.next_u64());
            }
            "bytes_mut_arc" => {
                // shared representation, sole owner again: a consumed prefix in front (offset),
                // a split-off tail that was dropped behind — reserve has to reclaim or grow
                j = j.set("init", rng.range(0, 12)).set("seed", rng.next_u64()).set("pre", rng.range(0, 24)).set("tail", rng.range(0, 24));
            }
            "seg" => {
                let mut sizes = Vec::new();
                let mut left = cap;
                while left > 0 {
                    let s = rng.range(1, 9).min(left);
                    sizes.push(J::from(s));
                    left -= s;
                    if rng.chance(1, 6) {
                        sizes.push(J::from(0usize));
                    }
                }
                j = j.set("sizes", J::Arr(sizes));
            }
            _ => {}
        }
        return j;
    }
    match rng.below(6) {
        0 | 1 | 2 => J::obj().set("k", "chain").set("a", gen_wplan(rng, depth - 1)).set("b", gen_wplan(rng, depth - 1)),
        3 | 4 => {
            let inner = gen_wplan(rng, depth - 1);
            let ir = Tm::from_plan(&inner).remaining();
            let lim = match rng.below(7) {
                0 => 0,
                1 => usize::MAX,
                2 if ir < 1 << 40 => ir,
                3 if ir < 1 << 40 => ir + 1,
                4 if ir < 1 << 40 => ir.saturating_sub(1),
                _ => rng.range(0, 100),
            };
            J::obj().set("k", "limit").set("lim", lim).set("in", inner)
        }
        _ => J::obj().set("k", *rng.pick(&["mutref", "box"])).set("in", gen_wplan(rng, depth - 1)),
    }
}

/// Capacity model of a target tree.
#[derive(Clone, Debug)]
pub enum Tm {
    Fixed { cap: usize, filled: usize },
    Grow { is_vec: bool, len: usize },
    Chain(Box<Tm>, Box<Tm>),
    Limit { lim: usize, inner: Box<Tm> },
}
impl Tm {
    pub fn from_plan(p: &J) -> Tm {
        match p.str("k").unwrap_or("") {
            "chain" => Tm::Chain(Box::new(Tm::from_plan(p.get("a").unwrap())), Box::new(Tm::from_plan(p.get("b").unwrap()))),
            "limit" => Tm::Limit { lim: p.us("lim"), inner: Box::new(Tm::from_plan(p.get("in").unwrap())) },
            "mutref" | "box" => Tm::from_plan(p.get("in").unwrap()),
            "vec" => Tm::Grow { is_vec: true, len: p.us("init") },
            "bytes_mut" | "bytes_mut_arc" => Tm::Grow { is_vec: false, len: p.us("init") },
            "seg" => Tm::Fixed { cap: p.arr("sizes").iter().map(|x| x.as_int() as usize).sum(), filled: 0 },
            _ => Tm::Fixed { cap: p.us("cap"), filled: 0 },
        }
    }
    pub fn remaining(&self) -> usize {
        match self {
            Tm::Fixed { cap, filled } => cap - filled,
            Tm::Grow { is_vec: true, len } => isize::MAX as usize - len,
            Tm::Grow { is_vec: false, len } => usize::MAX - len,
            Tm::Chain(a, b) => a.remaining().saturating_add(b.remaining()),
            Tm::Limit { lim, inner } => (*lim).min(inner.remaining()),
        }
    }
    pub fn all_fixed(&self) -> bool {
        match self {
            Tm::Fixed { .. } => true,
            Tm::Grow { .. } => false,
            Tm::Chain(a, b) => a.all_fixed() && b.all_fixed(),
            Tm::Limit { inner, .. } => inner.all_fixed(),
        }
    }
    pub fn has_chain(&self) -> bool {
        match self {
            Tm::Chain(..) => true,
            Tm::Limit { inner, .. } => inner.has_chain(),
            _ => false,
        }
    }
    /// bounded: remaining() is a real byte budget (no growable leaf reachable without a limit)
    pub fn bounded(&self) -> bool {
        self.remaining() < (1 << 40)
    }
    pub fn write(&mut self, n: usize) {
        match self {
            Tm::Fixed { filled, .. } => *filled += n,
            Tm::Grow { len, .. } => *len += n,
            Tm::Chain(a, b) => {
                let ta = n.min(a.remaining());
                a.write(ta);
                if n > ta {
                    b.write(n - ta);
                }
            }
            Tm::Limit { lim, inner } => {
                *lim -= n;
                inner.write(n);
            }
        }
    }
    /// per-leaf bytes received, left to right
    pub fn leaf_fill(&self, out: &mut Vec<usize>) {
        match self {
            Tm::Fixed { filled, .. } => out.push(*filled),
            Tm::Grow { len, .. } => out.push(*len),
            Tm::Chain(a, b) => {
                a.leaf_fill(out);
                b.leaf_fill(out);
            }
            Tm::Limit { inner, .. } => inner.leaf_fill(out),
        }
    }
}

pub struct Frames {
    pub frames: Vec<Vec<MaybeUninit<u8>>>,
    pub caps: Vec<usize>,
}

pub fn collect_frames(p: &J, f: &mut Frames) {
    match p.str("k").unwrap_or("") {
        "chain" => {
            collect_frames(p.get("a").unwrap(), f);
            collect_frames(p.get("b").unwrap(), f);
        }
        "limit" | "mutref" | "box" => collect_frames(p.get("in").unwrap(), f),
        "slice" | "uninit" => {
            let cap = p.us("cap").min(1 << 16);
            let mut v: Vec<MaybeUninit<u8>> = Vec::with_capacity(cap + 2 * GUARD);
            v.extend(std::iter::repeat(MaybeUninit::new(GUARD_BYTE)).take(GUARD));
            v.extend(std::iter::repeat(MaybeUninit::new(FILL)).take(cap));
            v.extend(std::iter::repeat(MaybeUninit::new(GUARD_BYTE)).take(GUARD));
            f.frames.push(v);
            f.caps.push(cap);
        }
        _ => {}
    }
}

pub fn wbuild<'a>(p: &J, frames: &mut std::slice::IterMut<'a, Vec<MaybeUninit<u8>>>) -> NodeMut<'a> {
    match p.str("k").unwrap_or("") {
        "chain" => {
            let a = wbuild(p.get("a").unwrap(), frames);
            let b = wbuild(p.get("b").unwrap(), frames);
            NodeMut::Chain(Box::new(a.chain_mut(b)))
        }
        "limit" => NodeMut::Limit(Box::new(wbuild(p.get("in").unwrap(), frames).limit(p.us("lim")))),
        "mutref" => NodeMut::MutRef(Box::new(wbuild(p.get("in").unwrap(), frames))),
        "box" => NodeMut::Boxed(Box::new(wbuild(p.get("in").unwrap(), frames))),
        "vec" => {
            let init = Rng::new(p.u64("seed")).bytes(p.us("init"));
            let mut v = Vec::with_capacity(init.len() + p.us("cap"));
            v.extend_from_slice(&init);
            NodeMut::Vec(v)
        }
        "bytes_mut" => {
            let init = Rng::new(p.u64("seed")).bytes(p.us("init"));
            let mut v = BytesMut::with_capacity(init.len() + p.us("cap"));
            v.extend_from_slice(&init);
            NodeMut::BytesMut(v)
        }
        "bytes_mut_arc" => {
            let init = Rng::new(p.u64("seed")).bytes(p.us("init"));
            let (pre, tail, cap) = (p.us("pre"), p.us("tail"), p.us("cap"));
            let mut v = BytesMut::with_capacity(pre + init.len() + cap + tail);
            v.extend_from_slice(&vec![0xEE; pre]);
            v.extend_from_slice(&init);
            let keep = pre + init.len() + cap;
            let t = v.split_off(keep);
            drop(t);
            v.advance(pre);
            NodeMut::BytesMut(v)
        }
        "seg" => {
            let sizes: Vec<usize> = p.arr("sizes").iter().map(|x| x.as_int() as usize).collect();
            NodeMut::Seg(SegBufMut::new(&sizes))
        }
        k => {
            let fr = frames.next().expect("frame");
            let n = fr.len();
            let payload = &mut fr[GUARD..n - GUARD];
            if k == "slice" {
                // the payload was initialised with FILL, so viewing it as [u8] is sound
                let s: &'a mut [u8] = unsafe { std::slice::from_raw_parts_mut(payload.as_mut_ptr() as *mut u8, payload.len()) };
                NodeMut::Slice(s)
            } else {
                NodeMut::Uninit(payload)
            }
        }
    }
}

pub enum LeafOut {
    FixedRemaining(usize),
    Grow(Vec<u8>),
    Seg(SegBufMut),
}

pub struct WDeep {
    pub problems: Vec<String>,
    pub adapters_checked: usize,
}

/// Take the target apart (`into_inner`), checking limit()/get_ref bookkeeping on the way.
pub fn wfinish(n: NodeMut, tm: &Tm, out: &mut Vec<LeafOut>, d: &mut WDeep, path: &str) {
    match (n, tm) {
        (NodeMut::Chain(c), Tm::Chain(a, b)) => {
            if a.bounded() && c.first_ref().remaining_mut() != a.remaining() {
                d.problems.push(format!("{}: Chain::first_ref().remaining_mut() = {}, expected {}", path, c.first_ref().remaining_mut(), a.remaining()));
            }
            if b.bounded() && c.last_ref().remaining_mut() != b.remaining() {
                d.problems.push(format!("{}: Chain::last_ref().remaining_mut() = {}, expected {}", path, c.last_ref().remaining_mut(), b.remaining()));
            }
            d.adapters_checked += 1;
            let (x, y) = c.into_inner();
            wfinish(x, a, out, d, &format!("{}.a", path));
            wfinish(y, b, out, d, &format!("{}.b", path));
        }
        (NodeMut::Limit(l), Tm::Limit { lim, inner }) => {
            if Limit::limit(&*l) != *lim {
                d.problems.push(format!("{}: Limit::limit() = {}, expected {}", path, Limit::limit(&*l), lim));
            }
            if inner.bounded() && l.get_ref().remaining_mut() != inner.remaining() {
                d.problems.push(format!("{}: Limit::get_ref().remaining_mut() = {}, expected {}", path, l.get_ref().remaining_mut(), inner.remaining()));
            }
            d.adapters_checked += 1;
            wfinish(l.into_inner(), inner, out, d, &format!("{}.in", path));
        }
        (NodeMut::MutRef(i), t) | (NodeMut::Boxed(i), t) => wfinish(*i, t, out, d, path),
        (NodeMut::Vec(v), _) => out.push(LeafOut::Grow(v)),
        (NodeMut::BytesMut(v), _) => out.push(LeafOut::Grow(v.to_vec())),
        (NodeMut::Slice(s), _) => out.push(LeafOut::FixedRemaining(s.len())),
        (NodeMut::Uninit(s), _) => out.push(LeafOut::FixedRemaining(s.len())),
        (NodeMut::Seg(s), _) => out.push(LeafOut::Seg(s)),
        _ => d.problems.push(format!("{}: nest shape differs from plan", path)),
    }
}

// ------------------------------------------------------------------ operations

pub fn gen_wop(rng: &mut Rng, tm: &Tm, root_is_limit: bool) -> J {
    let rem = tm.remaining();
    let fits = |rng: &mut Rng, want_overflow: bool| -> usize {
        if rem >= (1 << 40) {
            return rng.range(0, 70);
        }
        if want_overflow {
            rem + rng.range(1, 4)
        } else {
            match rng.below(5) {
                0 => rem,
                1 => rem.saturating_sub(1),
                2 => 0,
                _ => rng.range(0, rem),
            }
        }
    };
    let over = rng.chance(1, 25);
    let put_typed = |rng: &mut Rng| -> J {
        let var = rng.chance(1, 3);
        let base = if var { *rng.pick(gets::VAR) } else { *rng.pick(gets::FIXED) };
        let nb = if var {
            if rng.chance(1, 40) {
                9 + rng.below(2)
            } else {
                rng.range(0, 8)
            }
        } else {
            0
        };
        // boundary and random values
        let (hi, lo) = match rng.below(6) {
            0 => (0u64, 0u64),
            1 => (u64::MAX, u64::MAX),
            2 => (0, 0x80),
            3 => (0x8000_0000_0000_0000, 0),
            4 => (0, 0xff7f),
            _ => (rng.next_u64(), rng.next_u64()),
        };
        J::obj().set("op", "put").set("m", format!("put_{}", base)).set("hi", hi).set("lo", lo).set("nb", nb)
    };
    match rng.weighted(&[10, 6, 4, 5, 4, 3, 3, 3, 2, 2, 1]) {
        9 => {
            let n = if rem < (1 << 40) { rng.range(0, rem.min(300) + 2) } else { rng.range(0, 120) };
            J::obj().set("op", "put_faulty").set("seed", rng.next_u64()).set("n", n).set("at", rng.range(1, 12))
        }
        10 => J::obj().set("op", "advance_over"),
        0 => put_typed(rng),
        1 => J::obj().set("op", "put_slice").set("seed", rng.next_u64()).set("n", fits(rng, over)),
        2 => {
            // a growable target has room for (i|u)size::MAX - len bytes: a count just above that
            // cannot fit either (no byte slice of that size exists, so only put_bytes can ask for it)
            let n = if over && rem >= (1 << 40) && rem <= usize::MAX - 4 { rem + rng.range(1, 4) } else { fits(rng, over) };
            J::obj().set("op", "put_bytes").set("val", rng.below(256)).set("n", n)
        }
        3 => {
            let want = fits(rng, over).min(300);
            // a source nest of roughly that size
            let mut plan = node::gen_plan(rng, 2, want.max(1));
            for _ in 0..6 {
                let l = node::expose(&plan).len();
                if (l <= rem) != over || rem >= (1 << 40) {
                    break;
                }
                plan = node::gen_plan(rng, 2, want.max(1));
            }
            J::obj().set("op", "put_buf").set("plan", plan)
        }
        4 => J::obj().set("op", "manual").set("n", rng.range(0, 20)).set("seed", rng.next_u64()),
        5 => J::obj().set("op", "writer_write").set("seed", rng.next_u64()).set("n", if rem < 1 << 40 { rng.range(0, rem + 5) } else { rng.range(0, 60) }),
        6 => {
            let lim = match rng.below(5) {
                0 => 0,
                1 => usize::MAX,
                _ => rng.range(0, 40),
            };
            let inner = match rng.below(4) {
                0 => put_typed(rng),
                1 => J::obj().set("op", "put_slice").set("seed", rng.next_u64()).set("n", rng.range(0, lim.min(rem).min(60) + if over { 1 } else { 0 })),
                2 => J::obj().set("op", "put_bytes").set("val", rng.below(256)).set("n", rng.range(0, lim.min(rem).min(60))),
                _ => J::obj().set("op", "put_faulty").set("seed", rng.next_u64()).set("n", rng.range(0, lim.min(rem).min(60) + 1)).set("at", rng.range(1, 10)),
            };
            J::obj().set("op", "limit_tmp").set("lim", lim).set("inner", inner)
        }
        7 => {
            let inner = match rng.below(4) {
                0 => put_typed(rng),
                1 => J::obj().set("op", "put_slice").set("seed", rng.next_u64()).set("n", rng.range(0, 30)),
                2 => J::obj().set("op", "put_bytes").set("val", rng.below(256)).set("n", rng.range(0, 30)),
                // fill the rest of the first half and the head of the second through chunk_mut(),
                // then commit both with one advance_mut
                _ => J::obj().set("op", "cross").set("seed", rng.next_u64()).set("k", rng.range(0, 12)),
            };
            J::obj().set("op", "chain_tmp").set("cap2", rng.range(0, 12)).set("inner", inner)
        }
        _ => {
            if root_is_limit {
                J::obj().set("op", "set_limit").set("lim", *rng.pick(&[0usize, 1, 7, 64, usize::MAX]))
            } else {
                put_typed(rng)
            }
        }
    }
}

/// One `advance_mut` that crosses from the first half of a chain into the second: the
/// rest of `a` (when it is one contiguous chunk) and up to `k` bytes of `b` are initialised
/// through `chunk_mut()` / `last_mut().chunk_mut()` and committed together.
fn cross_write<A: BufMut, Bm: BufMut>(cx: &mut WCtx, c: &mut Chain<A, Bm>, sub: &mut Tm, written: &mut Vec<u8>, op: &J) -> WFlow {
    let a_rem = c.first_ref().remaining_mut();
    let k_want = op.us("k");
    if a_rem == 0 || a_rem > 4096 {
        cx.hit("cross_not_applicable");
        return WFlow::Continue;
    }
    let data = Rng::new(op.u64("seed")).bytes(a_rem + k_want);
    let r = catch_unwind(AssertUnwindSafe(|| {
        let ch = c.chunk_mut();
        if ch.len() < a_rem {
            return None; // the room of the first half is not one contiguous chunk
        }
        ch[..a_rem].copy_from_slice(&data[..a_rem]);
        let cb = c.last_mut().chunk_mut();
        let k = k_want.min(cb.len());
        cb[..k].copy_from_slice(&data[a_rem..a_rem + k]);
        unsafe { c.advance_mut(a_rem + k) };
        Some(k)
    }));
    match r {
        Ok(None) => {
            cx.hit("cross_not_applicable");
            WFlow::Continue
        }
        Ok(Some(k)) => {
            written.extend_from_slice(&data[..a_rem + k]);
            sub.write(a_rem + k);
            cx.hit(if k > 0 { "chain_advance_mut_crossed" } else { "chain_advance_mut_filled_first" });
            WFlow::Continue
        }
        Err(p) => {
            cx.panics += 1;
            cx.v(&["C11", "C12"], "chain-advance_mut-panicked", format!("chain_mut(tmp): advance_mut({} + k) over initialised room panicked: {}", a_rem, rt::panic_message(&*p)));
            WFlow::End
        }
    }
}

pub struct WriteRun {
    pub viol: Vec<Violation>,
    pub steps: usize,
    pub ops: Vec<J>,
    pub panics: u64,
    pub probes: std::collections::BTreeMap<&'static str, u64>,
    pub digest: rt::Fnv,
}

struct WCtx {
    viol: Vec<Violation>,
    step: usize,
    /// room the (possibly temporary) target had before the operation that ended the run by panicking
    room_before_panic: Option<usize>,
    panics: u64,
    adapters: bool,
    probes: std::collections::BTreeMap<&'static str, u64>,
    /// context for later reports: an interrupted put and what the adapters accounted for it
    note: Option<String>,
}
impl WCtx {
    fn v(&mut self, props: &[&'static str], kind: &str, detail: String) {
        let detail = match &self.note {
            Some(n) => format!("{} [{}]", detail, n),
            None => detail,
        };
        self.viol.push(Violation { props: props.to_vec(), kind: kind.to_string(), detail, step: self.step });
    }
    fn law(&mut self, kind: &str, detail: String) {
        if self.adapters {
            self.v(&["C11", "C12"], kind, detail)
        } else {
            self.v(&["C11"], kind, detail)
        }
    }
    fn hit(&mut self, k: &'static str) {
        *self.probes.entry(k).or_insert(0) += 1;
    }
}

fn wcheck<B: BufMut>(cx: &mut WCtx, b: &mut B, tm: &Tm, what: &str) {
    let rm = b.remaining_mut();
    if tm.bounded() {
        if rm != tm.remaining() {
            cx.law("remaining_mut", format!("{}: remaining_mut() = {} but the target has room for {}", what, rm, tm.remaining()));
            return;
        }
    } else if rm < (1 << 40) {
        cx.law("remaining_mut", format!("{}: remaining_mut() = {} on a growable target", what, rm));
        return;
    }
    if b.has_remaining_mut() != (rm > 0) {
        cx.law("has_remaining_mut", format!("{}: has_remaining_mut() = {} with remaining_mut() = {}", what, b.has_remaining_mut(), rm));
    }
    let cl = b.chunk_mut().len();
    if cl > rm {
        cx.law("chunk_mut-too-long", format!("{}: chunk_mut().len() = {} > remaining_mut() = {}", what, cl, rm));
    } else if cl == 0 && rm > 0 {
        cx.law("chunk_mut-empty", format!("{}: chunk_mut() is empty although remaining_mut() = {}", what, rm));
    }
}

enum WFlow {
    Continue,
    End,
    /// the write did not fit and panicked: nothing may have changed, the run goes on
    Refused,
}

/// One write operation on any BufMut. `written` accumulates the appended bytes, `puts`
/// the typed values for the read-back check.
/// An honest segmented source whose `chunk()` / `advance()` panics at its `at`-th call:
/// user code failing in the middle of `put(src)`.
pub struct FaultySeg {
    inner: node::SegBuf,
    calls: std::cell::Cell<usize>,
    at: usize,
}
impl FaultySeg {
    fn tick(&self) {
        let c = self.calls.get() + 1;
        self.calls.set(c);
        if c == self.at {
            panic!("FaultySeg: source told to panic at call {}", c);
        }
    }
}
impl Buf for FaultySeg {
    fn remaining(&self) -> usize {
        self.inner.remaining()
    }
    fn chunk(&self) -> &[u8] {
        self.tick();
        self.inner.chunk()
    }
    fn advance(&mut self, cnt: usize) {
        self.tick();
        self.inner.advance(cnt)
    }
}

fn do_wop<B: BufMut>(cx: &mut WCtx, b: &mut B, tm: &mut Tm, written: &mut Vec<u8>, puts: &mut Vec<(String, u128, usize, usize)>, op: &J, what: &str) -> WFlow {
    let name = op.str("op").unwrap_or("");
    let rem = tm.remaining();
    if name == "put_faulty" {
        // put(src) where src panics part-way: whatever prefix went through must be accounted for
        // by every adapter on the way (the room that is left tells how much that was)
        let data = Rng::new(op.u64("seed")).bytes(op.us("n").min(400));
        let src = FaultySeg { inner: node::SegBuf::from_cuts(&data, op.u64("seed") ^ 0x77), calls: Default::default(), at: op.us("at").max(1) };
        let r = catch_unwind(AssertUnwindSafe(|| put_any(b, src)));
        return match r {
            Ok(()) => {
                if data.len() > rem {
                    cx.law("write-did-not-fit-but-returned", format!("{}: put of a {}-byte source returned although only {} fit", what, data.len(), rem));
                    return WFlow::End;
                }
                written.extend_from_slice(&data);
                tm.write(data.len());
                WFlow::Continue
            }
            Err(_) => {
                cx.panics += 1;
                if rem == usize::MAX {
                    return WFlow::End; // saturated room: the transferred prefix cannot be read off
                }
                let rem1 = match catch_unwind(AssertUnwindSafe(|| b.remaining_mut())) {
                    Ok(x) => x,
                    Err(_) => return WFlow::End,
                };
                if rem1 > rem || rem - rem1 > data.len() {
                    cx.law("room-after-interrupted-put", format!("{}: room went from {} to {} during a put of a {}-byte source that panicked", what, rem, rem1, data.len()));
                    return WFlow::End;
                }
                let p = rem - rem1;
                cx.note = Some(format!(
                    "earlier, at step {}, {}: a put of a {}-byte source panicked part-way; by the room that was left the adapters had accepted {} bytes, which is what the contents are compared with",
                    cx.step, what, data.len(), p
                ));
                written.extend_from_slice(&data[..p]);
                tm.write(p);
                cx.hit("faulty_source_panicked");
                if p > 0 {
                    cx.hit("faulty_source_panicked_after_partial_transfer");
                }
                WFlow::Continue
            }
        };
    }
    if name == "advance_over" {
        // advance_mut beyond the room that is there (nests without Chain: a Chain may have filled its
        // first half before the second refuses): if it panics, nothing may have changed
        if tm.has_chain() {
            return WFlow::Continue;
        }
        let r = catch_unwind(AssertUnwindSafe(|| {
            let cnt = if rem < (1 << 40) { rem + 1 } else { b.chunk_mut().len() + 1 };
            unsafe { b.advance_mut(cnt) }
        }));
        return match r {
            Ok(()) => {
                // allowed ("may panic"); the cursor is then wherever the implementation put it
                cx.hit("advance_mut_beyond_room_returned");
                WFlow::End
            }
            Err(_) => {
                cx.panics += 1;
                cx.hit("advance_mut_beyond_room_refused");
                WFlow::Refused
            }
        };
    }
    let (bytes, must_panic_args): (Vec<u8>, bool) = match name {
        "put" => {
            let m = match gets::parse(op.str("m").unwrap_or("")) {
                Some(m) => m,
                None => return WFlow::Continue,
            };
            let v = ((op.u64("hi") as u128) << 64) | op.u64("lo") as u128;
            let nb = op.us("nb");
            if m.var && nb > 8 {
                (Vec::new(), true)
            } else {
                (gets::encode(&m, v, nb), false)
            }
        }
        "put_slice" => (Rng::new(op.u64("seed")).bytes(op.us("n").min(1 << 16)), false),
        "put_bytes" => {
            let n = op.us("n");
            if n > (1 << 20) && n <= rem {
                return WFlow::Continue; // never generated: would legitimately allocate gigabytes
            }
            (vec![op.us("val") as u8; n.min(1 << 20)], false)
        }
        "put_buf" => (node::expose(op.get("plan").unwrap_or(&J::obj())), false),
        "manual" => {
            let n = op.us("n");
            (Rng::new(op.u64("seed")).bytes(n), false)
        }
        _ => return WFlow::Continue,
    };
    let n = if name == "put_bytes" { op.us("n") } else { bytes.len() };
    let fits = n <= rem;
    let mut oob_accepted: Option<&'static str> = None;
    let r = catch_unwind(AssertUnwindSafe(|| match name {
        "put" => {
            let v = ((op.u64("hi") as u128) << 64) | op.u64("lo") as u128;
            gets::call_put(b, op.str("m").unwrap_or(""), v, op.us("nb"));
        }
        "put_slice" => b.put_slice(&bytes),
        "put_bytes" => b.put_bytes(op.us("val") as u8, n),
        "put_buf" => {
            let plan = op.get("plan").cloned().unwrap_or(J::obj());
            let mut arena = Vec::new();
            node::collect_arena(&plan, &mut arena);
            let mut next = 0;
            let src = node::build(&plan, &arena, &mut next);
            // route through a generic helper so `put` sees a Sized Self
            put_any(b, src);
        }
        _ => {
            // "manual": chunk_mut + UninitSlice API + advance_mut, chunk by chunk
            if op.u64("seed") % 3 == 0 {
                // the safe UninitSlice API refuses everything that reaches past the chunk
                let c = b.chunk_mut();
                let l = c.len();
                let too_long = vec![0x77u8; l + 1];
                if catch_unwind(AssertUnwindSafe(|| c.write_byte(l, 0x77))).is_ok() {
                    oob_accepted = Some("write_byte(len)");
                } else if catch_unwind(AssertUnwindSafe(|| c.copy_from_slice(&too_long))).is_ok() {
                    oob_accepted = Some("copy_from_slice(len + 1 bytes)");
                } else if catch_unwind(AssertUnwindSafe(|| c[..l + 1].len())).is_ok() {
                    oob_accepted = Some("index ..len+1");
                } else if catch_unwind(AssertUnwindSafe(|| c[l + 1..].len())).is_ok() {
                    oob_accepted = Some("index len+1..");
                }
                if oob_accepted.is_some() {
                    return;
                }
            }
            let mut p = 0;
            while p < bytes.len() {
                let c = b.chunk_mut();
                let k = c.len().min(bytes.len() - p);
                if k == 0 {
                    panic!("manual: chunk_mut() empty with bytes left to write");
                }
                // every Index/IndexMut form of UninitSlice, write_byte and as_mut_ptr
                match (p + k) % 7 {
                    6 => unsafe {
                        let whole = c.as_uninit_slice_mut();
                        for i in 0..k {
                            whole[i] = std::mem::MaybeUninit::new(bytes[p + i]);
                        }
                    },
                    0 if k >= 1 => {
                        for i in 0..k {
                            c.write_byte(i, bytes[p + i]);
                        }
                    }
                    1 => c[..k].copy_from_slice(&bytes[p..p + k]),
                    2 => c[0..k].copy_from_slice(&bytes[p..p + k]),
                    3 if k >= 1 => c[..=k - 1].copy_from_slice(&bytes[p..p + k]),
                    4 if k >= 2 => {
                        c[0..=0].copy_from_slice(&bytes[p..p + 1]);
                        c[1..][..k - 1].copy_from_slice(&bytes[p + 1..p + k]);
                    }
                    5 => unsafe {
                        let full = c.len();
                        let whole = &mut c[..];
                        assert_eq!(whole.len(), full);
                        std::ptr::copy_nonoverlapping(bytes[p..].as_ptr(), whole.as_mut_ptr(), k);
                    },
                    _ => c[..k].copy_from_slice(&bytes[p..p + k]),
                }
                unsafe { b.advance_mut(k) };
                p += k;
            }
        }
    }));
    if let Some(what_api) = oob_accepted {
        cx.v(&["C11"], "uninit-slice-out-of-bounds-accepted", format!("{}: UninitSlice::{} on the chunk returned by chunk_mut() did not panic", what, what_api));
        return WFlow::End;
    }
    match r {
        Ok(()) => {
            if must_panic_args {
                cx.v(&["C11"], "nbytes-too-large-returned", format!("{}: {} with nbytes {} returned instead of panicking", what, op.str("m").unwrap_or(""), op.us("nb")));
                return WFlow::End;
            }
            if !fits {
                cx.law("write-did-not-fit-but-returned", format!("{}: {} of {} bytes returned although only {} fit", what, name, n, rem));
                return WFlow::End;
            }
            if name == "put" {
                let m = gets::parse(op.str("m").unwrap_or("")).unwrap();
                let v = ((op.u64("hi") as u128) << 64) | op.u64("lo") as u128;
                puts.push((op.str("m").unwrap_or("").to_string(), gets::decode(&m, &bytes), op.us("nb"), written.len()));
                let _ = v;
            }
            written.extend_from_slice(&bytes);
            tm.write(n);
            WFlow::Continue
        }
        Err(p) => {
            cx.panics += 1;
            cx.room_before_panic = Some(if must_panic_args { 0 } else { rem });
            if fits && !must_panic_args && !(name == "manual") {
                cx.law("write-panicked", format!("{}: {} of {} bytes panicked ({}) although {} fit", what, name, n, rt::panic_message(&*p), rem));
            } else if name == "manual" && fits {
                cx.law("write-panicked", format!("{}: chunk_mut/advance_mut loop for {} bytes panicked ({}) although {} fit", what, n, rt::panic_message(&*p), rem));
            } else {
                cx.hit("did_not_fit_panic");
                if name != "manual" {
                    // an over-long write is refused as a whole: target and adapters must be exactly
                    // as before (checked by the state checks and by the final inspection)
                    return WFlow::Refused;
                }
            }
            WFlow::End
        }
    }
}

fn put_any<B: BufMut, S: Buf>(b: &mut B, src: S) {
    // `BufMut::put` needs Self: Sized; B is.
    b.put(src)
}

pub fn has_wadapter(p: &J) -> bool {
    match p.str("k").unwrap_or("") {
        "chain" | "limit" => true,
        "mutref" | "box" => has_wadapter(p.get("in").unwrap()),
        _ => false,
    }
}

pub fn run(plan: &J, given: Option<&[J]>, rng: &mut Rng, max_ops: usize, journal: &mut rt::journal::Journal) -> WriteRun {
    let mut frames = Frames { frames: Vec::new(), caps: Vec::new() };
    collect_frames(plan, &mut frames);
    let mut tm = Tm::from_plan(plan);
    let mut cx = WCtx { viol: Vec::new(), step: 0, room_before_panic: None, panics: 0, adapters: has_wadapter(plan), probes: Default::default(), note: None };
    let mut written: Vec<u8> = Vec::new();
    let mut puts: Vec<(String, u128, usize, usize)> = Vec::new();
    let mut ops_done: Vec<J> = Vec::new();
    let mut digest = rt::Fnv::default();
    let root_is_limit = plan.str("k") == Some("limit");
    let mut leaves: Vec<LeafOut> = Vec::new();
    let mut ended = false;
    {
        let mut it = frames.frames.iter_mut();
        let mut node = wbuild(plan, &mut it);
        wcheck(&mut cx, &mut node, &tm, "fresh target");
        let n_ops = given.map(|g| g.len()).unwrap_or(max_ops);
        let mut k = 0;
        while k < n_ops && cx.viol.is_empty() && !ended {
            let op = match given {
                Some(g) => g[k].clone(),
                None => gen_wop(rng, &tm, root_is_limit),
            };
            journal.line(&op.dump());
            cx.step = k;
            k += 1;
            ops_done.push(op.clone());
            let name = op.str("op").unwrap_or("").to_string();
            let flow = match name.as_str() {
                "writer_write" => {
                    let data = Rng::new(op.u64("seed")).bytes(op.us("n").min(1 << 16));
                    let rem = tm.remaining();
                    let mut acc = [0usize; 4];
                    let r = catch_unwind(AssertUnwindSafe(|| {
                        let mut w = (&mut node).writer();
                        acc[0] = w.get_ref().remaining_mut();
                        let a = w.write(&data);
                        let f = w.flush();
                        acc[1] = w.get_ref().remaining_mut();
                        acc[2] = w.get_mut().remaining_mut();
                        let inner = w.into_inner();
                        acc[3] = inner.remaining_mut();
                        (a, f)
                    }));
                    match r {
                        Ok((Ok(got), Ok(()))) => {
                            let want = data.len().min(rem);
                            let after = { let mut t = tm.clone(); t.write(got.min(rem)); t.remaining() };
                            if acc[0] != rem || acc[1..].iter().any(|&x| x != after) {
                                cx.v(&["C12"], "writer-accessors", format!("Writer with room for {}, write returned {}: get_ref/get_ref/get_mut/into_inner show remaining_mut {:?} (expected {} then {})", rem, got, acc, rem, after));
                            }
                            if got != want {
                                cx.v(&["C12"], "writer-write-count", format!("Writer::write({} bytes) with room for {} returned {}", data.len(), rem, got));
                                WFlow::End
                            } else {
                                written.extend_from_slice(&data[..got]);
                                tm.write(got);
                                WFlow::Continue
                            }
                        }
                        Ok((a, f)) => {
                            cx.v(&["C12"], "writer-failed", format!("Writer::write/flush returned {:?} / {:?}", a.err(), f.err()));
                            WFlow::End
                        }
                        Err(p) => {
                            cx.v(&["C12"], "writer-panicked", format!("Writer::write({} bytes) panicked: {}", data.len(), rt::panic_message(&*p)));
                            WFlow::End
                        }
                    }
                }
                "limit_tmp" => {
                    let lim = op.us("lim");
                    let inner = op.get("inner").cloned().unwrap_or(J::obj());
                    let mut sub = Tm::Limit { lim, inner: Box::new(tm.clone()) };
                    let nv = cx.viol.len();
                    let before = written.len();
                    let (flow, left) = {
                        let mut l = (&mut node).limit(lim);
                        wcheck(&mut cx, &mut l, &sub, "limit(tmp)");
                        let f = if cx.viol.len() == nv { do_wop(&mut cx, &mut l, &mut sub, &mut written, &mut puts, &inner, "limit(tmp)") } else { WFlow::End };
                        if cx.viol.len() == nv {
                            if let WFlow::Continue | WFlow::Refused = f {
                                wcheck(&mut cx, &mut l, &sub, "limit(tmp) after op");
                            }
                        }
                        (f, Limit::limit(&l))
                    };
                    for v in cx.viol[nv..].iter_mut() {
                        if !v.props.contains(&"C12") {
                            v.props.push("C12");
                        }
                    }
                    let went = written.len() - before;
                    if let (WFlow::Continue | WFlow::Refused, true) = (&flow, cx.viol.len() == nv) {
                        if left != lim - went {
                            cx.v(&["C12"], "limit-bookkeeping", format!("limit({}) after {} bytes ({}): limit() = {}", lim, went, inner.dump(), left));
                        }
                        if went == lim && lim > 0 {
                            cx.hit("limit_reached_exactly");
                        }
                    }
                    if let Tm::Limit { inner, .. } = sub {
                        tm = *inner;
                    }
                    flow
                }
                "chain_tmp" => {
                    let cap2 = op.us("cap2").min(64);
                    let inner = op.get("inner").cloned().unwrap_or(J::obj());
                    let mut extra = vec![GUARD_BYTE; GUARD];
                    extra.extend(std::iter::repeat(FILL).take(cap2));
                    extra.extend(std::iter::repeat(GUARD_BYTE).take(GUARD));
                    let mut sub = Tm::Chain(Box::new(tm.clone()), Box::new(Tm::Fixed { cap: cap2, filled: 0 }));
                    let nv = cx.viol.len();
                    let before = written.len();
                    let mut tail_written: Vec<u8> = Vec::new();
                    let flow = {
                        let (g0, restx) = extra.split_at_mut(GUARD);
                        let (payload, g1) = restx.split_at_mut(cap2);
                        let f;
                        let b_left;
                        {
                            let mut c = (&mut node).chain_mut(&mut *payload);
                            wcheck(&mut cx, &mut c, &sub, "chain_mut(tmp)");
                            f = if cx.viol.len() != nv {
                                WFlow::End
                            } else if inner.str("op") == Some("cross") {
                                cross_write(&mut cx, &mut c, &mut sub, &mut written, &inner)
                            } else {
                                do_wop(&mut cx, &mut c, &mut sub, &mut written, &mut puts, &inner, "chain_mut(tmp)")
                            };
                            if cx.viol.len() == nv {
                                if let WFlow::Continue | WFlow::Refused = f {
                                    wcheck(&mut cx, &mut c, &sub, "chain_mut(tmp) after op");
                                }
                            }
                            b_left = c.last_ref().remaining_mut();
                        }
                        if g0.iter().chain(g1.iter()).any(|&x| x != GUARD_BYTE) {
                            cx.v(&["C11", "C12"], "guard-bytes-overwritten", "chain_mut(tmp): bytes outside the second half's writable region were modified".into());
                        }
                        if let (Tm::Chain(_, bb), true) = (&sub, cx.viol.len() == nv) {
                            if let Tm::Fixed { filled, cap } = **bb {
                                if let WFlow::Continue | WFlow::Refused = f {
                                    if b_left != cap - filled {
                                        cx.v(&["C12"], "chain-halves-advanced", format!("chain_mut(tmp): second half has room for {}, expected {}", b_left, cap - filled));
                                    }
                                }
                                tail_written = payload[..filled.min(cap2)].to_vec();
                                if payload[filled.min(cap2)..].iter().any(|&x| x != FILL) {
                                    cx.v(&["C11", "C12"], "wrote-beyond-cursor", "chain_mut(tmp): second half modified beyond the bytes accounted for".into());
                                }
                                if filled > 0 {
                                    cx.hit("chain_mut_crossed_boundary");
                                }
                            }
                        }
                        f
                    };
                    for v in cx.viol[nv..].iter_mut() {
                        if !v.props.contains(&"C12") {
                            v.props.push("C12");
                        }
                    }
                    // the bytes that went into the temporary second half are not part of the target
                    if cx.viol.len() == nv {
                        let went = written.len() - before;
                        let into_b = tail_written.len().min(went);
                        if written[written.len() - into_b..] != tail_written[..into_b] {
                            cx.v(&["C11", "C12"], "chain-second-half-content", "chain_mut(tmp): second half holds wrong bytes".into());
                        }
                        let keep = written.len() - into_b;
                        puts.retain(|p| p.3 + if gets::parse(&p.0).map(|m| m.var).unwrap_or(false) { p.2 } else { gets::parse(&p.0).map(|m| m.size).unwrap_or(0) } <= keep);
                        written.truncate(keep);
                    }
                    if let Tm::Chain(a, _) = sub {
                        tm = *a;
                    }
                    flow
                }
                "set_limit" => {
                    if let (NodeMut::Limit(l), Tm::Limit { lim, .. }) = (&mut node, &mut tm) {
                        l.set_limit(op.us("lim"));
                        *lim = op.us("lim");
                        cx.hit("set_limit");
                    }
                    WFlow::Continue
                }
                _ => do_wop(&mut cx, &mut node, &mut tm, &mut written, &mut puts, &op, "target"),
            };
            digest.str(&name);
            digest.u64(written.len() as u64);
            digest.u64(rt::fnv(&written));
            match flow {
                WFlow::End => ended = true,
                WFlow::Continue | WFlow::Refused => {
                    if let WFlow::Refused = flow {
                        cx.room_before_panic = None;
                        cx.hit("refused_write_then_continued");
                    }
                    if cx.viol.is_empty() {
                        wcheck(&mut cx, &mut node, &tm, &format!("after {}", op.dump()));
                    }
                }
            }
        }
        // take the nest apart
        if cx.viol.is_empty() && !ended {
            let mut d = WDeep { problems: Vec::new(), adapters_checked: 0 };
            wfinish(node, &tm, &mut leaves, &mut d, "root");
            *cx.probes.entry("deep_adapters_checked").or_insert(0) += d.adapters_checked as u64;
            for p in d.problems {
                cx.v(&["C12"], "inner-target-not-advanced-exactly", p);
            }
        } else if cx.viol.is_empty() && ended && cx.room_before_panic.is_some() {
            // The run ended with a (legitimate) panic: the state of the adapters is
            // unspecified, but "no byte outside the target's writable region is ever
            // modified" still holds: whatever was written before the panic must fit
            // into the room the target had.
            let mut d = WDeep { problems: Vec::new(), adapters_checked: 0 };
            let r = catch_unwind(AssertUnwindSafe(|| {
                let mut lv = Vec::new();
                wfinish(node, &tm, &mut lv, &mut d, "root");
                lv
            }));
            if let Ok(lv) = r {
                leaves = lv;
            }
        } else {
            drop(node);
        }
    }
    if cx.viol.is_empty() && ended && cx.room_before_panic.is_some() && !leaves.is_empty() {
        let room = cx.room_before_panic.unwrap();
        let mut fills = Vec::new();
        tm.leaf_fill(&mut fills);
        if fills.len() == leaves.len() {
            let plans = leaf_plans(plan);
            let mut fi = 0usize;
            let mut extra_total = 0usize;
            for (li, leaf) in leaves.iter().enumerate() {
                let now = match leaf {
                    LeafOut::FixedRemaining(left) => {
                        let cap = frames.caps[fi];
                        let fr = &frames.frames[fi];
                        fi += 1;
                        let filled = cap - (*left).min(cap);
                        // bytes behind the cursor count too: they were modified
                        let payload: Vec<u8> = fr[GUARD..GUARD + cap].iter().map(|x| unsafe { x.assume_init() }).collect();
                        let touched = payload.iter().rposition(|&x| x != FILL).map(|p| p + 1).unwrap_or(0);
                        filled.max(touched.min(cap))
                    }
                    LeafOut::Grow(v) => v.len().max(plans[li].us("init")),
                    LeafOut::Seg(sg) => {
                        let p = sg.payload();
                        let touched = p.iter().rposition(|&x| x != FILL).map(|q| q + 1).unwrap_or(0);
                        sg.filled().max(touched)
                    }
                };
                extra_total += now.saturating_sub(fills[li]);
            }
            if extra_total > room {
                cx.law(
                    "modified-beyond-writable-region",
                    format!("the write that did not fit panicked, but {} byte(s) were written although the target only had room for {}", extra_total, room),
                );
            }
            *cx.probes.entry("post_panic_inspections").or_insert(0) += 1;
        }
    }
    // guard bytes of every frame, always
    for (i, fr) in frames.frames.iter().enumerate() {
        let n = fr.len();
        let g = |x: &MaybeUninit<u8>| unsafe { x.assume_init() };
        if fr[..GUARD].iter().any(|x| g(x) != GUARD_BYTE) || fr[n - GUARD..].iter().any(|x| g(x) != GUARD_BYTE) {
            cx.v(&["C11", "C02"], "guard-bytes-overwritten", format!("fixed-size target #{} (capacity {}): bytes outside its writable region were modified", i, frames.caps[i]));
        }
    }
    // contents: flatten the leaves in order and compare with what was appended
    if cx.viol.is_empty() && !ended {
        let mut fills = Vec::new();
        tm.leaf_fill(&mut fills);
        let mut flat: Vec<u8> = Vec::new();
        let mut fi = 0usize;
        let mut ok_shape = fills.len() == leaves.len();
        if ok_shape {
            let plans = leaf_plans(plan);
            for (li, leaf) in leaves.iter().enumerate() {
                match leaf {
                    LeafOut::FixedRemaining(left) => {
                        let fr = &frames.frames[fi];
                        let cap = frames.caps[fi];
                        fi += 1;
                        let filled = cap - (*left).min(cap);
                        if filled != fills[li] {
                            cx.law("leaf-fill-level", format!("fixed leaf #{}: {} bytes consumed of its slice, model says {}", li, filled, fills[li]));
                        }
                        let payload: Vec<u8> = fr[GUARD..GUARD + cap].iter().map(|x| unsafe { x.assume_init() }).collect();
                        flat.extend_from_slice(&payload[..filled.min(cap)]);
                        if payload[filled.min(cap)..].iter().any(|&x| x != FILL) {
                            cx.law("wrote-beyond-cursor", format!("fixed leaf #{}: bytes after the write cursor were modified", li));
                        }
                    }
                    LeafOut::Grow(v) => {
                        let init = Rng::new(plans[li].u64("seed")).bytes(plans[li].us("init"));
                        if v.len() != fills[li] || v.len() < init.len() || v[..init.len()] != init[..] {
                            cx.law("growable-leaf", format!("growable leaf #{}: len {} (model {}), initial contents {}", li, v.len(), fills[li], if v.len() >= init.len() && v[..init.len()] == init[..] { "kept" } else { "CHANGED" }));
                            ok_shape = false;
                        } else {
                            flat.extend_from_slice(&v[init.len()..]);
                        }
                    }
                    LeafOut::Seg(s) => {
                        if !s.guards_ok() {
                            cx.v(&["C11", "C02"], "guard-bytes-overwritten", format!("segmented leaf #{}: guard bytes between segments were modified", li));
                        }
                        let p = s.payload();
                        let filled = s.filled();
                        if filled != fills[li] {
                            cx.law("leaf-fill-level", format!("segmented leaf #{}: filled {} but model says {}", li, filled, fills[li]));
                        }
                        flat.extend_from_slice(&p[..filled]);
                        if p[filled..].iter().any(|&x| x != FILL) {
                            cx.law("wrote-beyond-cursor", format!("segmented leaf #{}: bytes after the write cursor were modified", li));
                        }
                    }
                }
            }
        }
        if cx.viol.is_empty() && ok_shape {
            if flat != written {
                let at = flat.iter().zip(written.iter()).position(|(a, b)| a != b).unwrap_or(flat.len().min(written.len()));
                cx.law("content-mismatch", format!("target holds {} bytes, {} were appended; first difference at {}", flat.len(), written.len(), at));
            } else {
                // read back every typed value with the matching getter
                for (m, want, nb, at) in &puts {
                    let g = m.replacen("put_", "get_", 1);
                    let mut rd = &flat[*at..];
                    let r = catch_unwind(AssertUnwindSafe(|| gets::call(&mut rd, &g, *nb)));
                    match r {
                        Ok(Some(gets::R::Val(v))) if v == *want => {}
                        Ok(other) => cx.v(&["C11", "C10"], "read-back-mismatch", format!("{} then {}({}): got {:?}, expected {:#x}", m, g, nb, other, want)),
                        Err(p) => cx.v(&["C11", "C10"], "read-back-panicked", format!("{} then {}({}) panicked: {}", m, g, nb, rt::panic_message(&*p))),
                    }
                }
                *cx.probes.entry("read_back_values").or_insert(0) += puts.len() as u64;
            }
        }
    }
    WriteRun { viol: cx.viol, steps: ops_done.len(), ops: ops_done, panics: cx.panics, probes: cx.probes, digest }
}

fn leaf_plans(p: &J) -> Vec<J> {
    let mut out = Vec::new();
    fn rec(p: &J, out: &mut Vec<J>) {
        match p.str("k").unwrap_or("") {
            "chain" => {
                rec(p.get("a").unwrap(), out);
                rec(p.get("b").unwrap(), out);
            }
            "limit" | "mutref" | "box" => rec(p.get("in").unwrap(), out),
            _ => out.push(p.clone()),
        }
    }
    rec(p, &mut out);
    out
}
