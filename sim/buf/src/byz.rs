//! Byzantine mode (C17): user-supplied *safe* trait implementations that lie or panic
//! on a seeded schedule (method, call number -> fault), driven into every crate entry
//! point that consumes them. Wrong data and panics are fine; the oracles are the
//! allocator ledger / red zones, guard frames around fixed targets, the leak check
//! after everything is dropped, and (in the Miri / ASAN variants) the UB detector.

use std::cell::Cell;
use std::io::{BufRead, IoSlice, Read};
use std::panic::{catch_unwind, AssertUnwindSafe};

use bytes::buf::IntoIter;
use bytes::{Buf, BufMut, Bytes, BytesMut};
use rt::journal::Journal;
use rt::{Rng, Violation, J};

use crate::gets;
use crate::Outcome;

pub const CONSUMERS: &[&str] = &[
    "bytesmut_put",
    "vec_put",
    "slice_put",
    "uninit_put",
    "limit_put",
    "chain_mut_put",
    "put_take",
    "put_chain",
    "copy_to_bytes",
    "copy_to_slice",
    "try_copy_to_slice",
    "typed_get",
    "take_ops",
    "chain_ops",
    "reader",
    "into_iter",
    "from_owner",
    "extend_iter",
    "from_iter",
    "bytes_from_iter",
    "mutref_box",
    "bytesmut_put_twice",
    "cursor_asref",
];

pub const LIES: &[(&str, &str)] = &[
    ("remaining", "plus"),
    ("remaining", "minus"),
    ("remaining", "zero"),
    ("remaining", "max"),
    ("remaining", "huge"),
    ("remaining", "panic"),
    ("chunk", "empty"),
    ("chunk", "shorter"),
    ("chunk", "longer"),
    ("chunk", "other"),
    ("chunk", "panic"),
    ("advance", "ignore"),
    ("advance", "half"),
    ("advance", "panic"),
    ("vectored", "none"),
    ("vectored", "garbage"),
    ("vectored", "within"),
    ("vectored", "panic"),
];

#[derive(Clone)]
struct Lie {
    m: String,
    call: u64,
    kind: String,
    sticky: bool,
    k: usize,
}

/// A `Buf` whose answers follow a fault schedule. All lies are expressible in safe
/// Rust; counters live in `Cell`s so `&self` methods can count calls without aliasing.
pub struct Liar {
    data: Vec<u8>,
    other: Vec<u8>,
    pos: Cell<usize>,
    lies: Vec<Lie>,
    calls: [Cell<u64>; 4],
    budget: Cell<u64>,
    fired: Cell<u64>,
}

impl Liar {
    fn new(data: Vec<u8>, lies: Vec<Lie>, seed: u64) -> Liar {
        let other = Rng::new(seed ^ 0xabcdef).bytes(data.len() + 40);
        Liar { data, other, pos: Cell::new(0), lies, calls: Default::default(), budget: Cell::new(400), fired: Cell::new(0) }
    }
    pub fn fired(&self) -> u64 {
        self.fired.get()
    }
    fn lie(&self, m: &str, idx: usize) -> Option<(&str, usize)> {
        let c = self.calls[idx].get() + 1;
        self.calls[idx].set(c);
        if self.budget.get() == 0 {
            panic!("LyingBuf: call budget exhausted");
        }
        self.budget.set(self.budget.get() - 1);
        for l in &self.lies {
            if l.m == m && (l.call == c || (l.sticky && c >= l.call)) {
                self.fired.set(self.fired.get() + 1);
                return Some((l.kind.as_str(), l.k));
            }
        }
        None
    }
    fn rem(&self) -> usize {
        let honest = self.data.len() - self.pos.get().min(self.data.len());
        match self.lie("remaining", 0) {
            None => honest,
            Some((k, n)) => match k {
                "plus" => honest + 1 + n % 64,
                "minus" => honest.saturating_sub(1 + n % 8),
                "zero" => 0,
                "max" => usize::MAX,
                "huge" => isize::MAX as usize + 1 + n % 1000,
                _ => panic!("LyingBuf: remaining() told to panic"),
            },
        }
    }
    fn chk(&self) -> &[u8] {
        let p = self.pos.get().min(self.data.len());
        match self.lie("chunk", 1) {
            None => &self.data[p..],
            Some((k, n)) => match k {
                "empty" => &[],
                "shorter" => {
                    let l = (self.data.len() - p) / 2;
                    &self.data[p..p + l]
                }
                "longer" => &self.other[..], // more bytes than remaining() admits
                "other" => {
                    let l = (self.data.len() - p).min(self.other.len());
                    &self.other[n % 3..l.max(n % 3)]
                }
                _ => panic!("LyingBuf: chunk() told to panic"),
            },
        }
    }
    fn adv(&self, cnt: usize) {
        match self.lie("advance", 2) {
            None => self.pos.set(self.pos.get().saturating_add(cnt)),
            Some((k, _)) => match k {
                "ignore" => {}
                "half" => self.pos.set(self.pos.get().saturating_add(cnt / 2)),
                _ => panic!("LyingBuf: advance() told to panic"),
            },
        }
    }
    fn vect<'a>(&'a self, dst: &mut [IoSlice<'a>]) -> usize {
        let p = self.pos.get().min(self.data.len());
        match self.lie("vectored", 3) {
            None => {
                if dst.is_empty() || p == self.data.len() {
                    0
                } else {
                    dst[0] = IoSlice::new(&self.data[p..]);
                    1
                }
            }
            Some((k, n)) => match k {
                "none" => 0,
                "garbage" => {
                    // claims more slices than it filled / than dst holds
                    if !dst.is_empty() {
                        dst[0] = IoSlice::new(&self.other[..]);
                    }
                    dst.len() + 1 + n % 3
                }
                "within" => {
                    // over-reports, but stays within dst.len(): every slot of dst is filled with a
                    // valid (if meaningless) slice and the count claims all of them
                    for (i, d) in dst.iter_mut().enumerate() {
                        *d = IoSlice::new(&self.other[i % 7..i % 7 + 1]);
                    }
                    dst.len()
                }
                _ => panic!("LyingBuf: chunks_vectored() told to panic"),
            },
        }
    }
}
impl Buf for Liar {
    fn remaining(&self) -> usize {
        self.rem()
    }
    fn chunk(&self) -> &[u8] {
        self.chk()
    }
    fn advance(&mut self, cnt: usize) {
        self.adv(cnt)
    }
    fn chunks_vectored<'a>(&'a self, dst: &mut [IoSlice<'a>]) -> usize {
        self.vect(dst)
    }
}

pub struct LyingIter {
    left: usize,
    hint: (usize, Option<usize>),
    panic_at: Option<usize>,
    n: usize,
}
impl Iterator for LyingIter {
    type Item = u8;
    fn next(&mut self) -> Option<u8> {
        if Some(self.n) == self.panic_at {
            panic!("LyingIter: told to panic");
        }
        if self.left == 0 {
            return None;
        }
        self.left -= 1;
        self.n += 1;
        Some(self.n as u8)
    }
    fn size_hint(&self) -> (usize, Option<usize>) {
        self.hint
    }
}

pub struct LyingOwner {
    a: Vec<u8>,
    b: Vec<u8>,
    calls: std::sync::atomic::AtomicUsize,
    mode: usize,
}
impl AsRef<[u8]> for LyingOwner {
    fn as_ref(&self) -> &[u8] {
        let c = self.calls.fetch_add(1, std::sync::atomic::Ordering::SeqCst);
        // call budget: a consumer that loops on inconsistent answers is stopped by a panic
        // (a hang is not a memory-safety violation, and the run must end)
        if c > 400 {
            panic!("LyingOwner: call budget exhausted");
        }
        match self.mode {
            0 => panic!("LyingOwner: as_ref told to panic"),
            1 => {
                if c % 2 == 0 {
                    &self.a
                } else {
                    &self.b
                }
            }
            _ => &self.a[..self.a.len() / (c + 1)],
        }
    }
}

pub fn gen_case(rng: &mut Rng, i: u64) -> J {
    let nc = CONSUMERS.len() as u64;
    let nl = LIES.len() as u64;
    let consumer = CONSUMERS[(i % nc) as usize];
    let (m, kind) = LIES[((i / nc) % nl) as usize];
    let call = 1 + (i / (nc * nl)) % 8;
    let mut lies = vec![J::obj().set("m", m).set("kind", kind).set("call", call).set("sticky", rng.chance(1, 3)).set("k", rng.range(0, 2000))];
    // sampled extra lies, later call indices
    let extra = rng.below(3);
    for _ in 0..extra {
        let (m2, k2) = *rng.pick(LIES);
        lies.push(J::obj().set("m", m2).set("kind", k2).set("call", rng.range(1, 20)).set("sticky", rng.chance(1, 4)).set("k", rng.range(0, 2000)));
    }
    J::obj()
        .set("consumer", consumer)
        .set("n", *rng.pick(&[0usize, 1, 2, 7, 8, 9, 16, 31, 64, 100]))
        .set("seed", rng.next_u64())
        .set("arg", rng.range(0, 80))
        .set("lies", J::Arr(lies))
}

fn mk_liar(case: &J, salt: u64) -> Liar {
    let n = case.us("n");
    let seed = case.u64("seed") ^ salt;
    let lies: Vec<Lie> = case
        .arr("lies")
        .iter()
        .map(|l| Lie { m: l.str("m").unwrap_or("").into(), call: l.u64("call"), kind: l.str("kind").unwrap_or("").into(), sticky: l.boolean("sticky"), k: l.us("k") })
        .collect();
    Liar::new(Rng::new(seed).bytes(n), lies, seed)
}

const G: usize = 16;
const GB: u8 = 0x5A;

fn framed(cap: usize) -> Vec<u8> {
    let mut v = vec![GB; G];
    v.extend(std::iter::repeat(0xEE).take(cap));
    v.extend(std::iter::repeat(GB).take(G));
    v
}
fn frame_ok(v: &[u8], cap: usize) -> bool {
    v[..G].iter().all(|&b| b == GB) && v[G + cap..].iter().all(|&b| b == GB)
}

/// One byzantine case. Panics out of the consumer are expected and caught.
pub fn run(case: &J, _given: Option<&[J]>, _rng: &mut Rng, _steps: usize, journal: &mut Journal) -> Outcome {
    let consumer = case.str("consumer").unwrap_or("").to_string();
    journal.line(&J::obj().set("op", "byz").set("byz", true).set("consumer", consumer.as_str()).dump());
    let arg = case.us("arg");
    let mut viol: Vec<Violation> = Vec::new();
    let mut probes: std::collections::BTreeMap<&'static str, u64> = Default::default();
    let mut fired = 0u64;
    let mut guard_bad = false;
    let mut bogus: Option<String> = None;
    let r = catch_unwind(AssertUnwindSafe(|| {
        match consumer.as_str() {
            "cursor_asref" => {
                // io::Cursor<T> over a T whose as_ref() answers differently per call
                let n = case.us("n");
                let o = LyingOwner { a: Rng::new(case.u64("seed")).bytes(n), b: vec![1, 2, 3], calls: Default::default(), mode: 1 + arg % 2 };
                let ranges = [(o.a.as_ptr() as usize, o.a.len()), (o.b.as_ptr() as usize, o.b.len())];
                let mut cu = std::io::Cursor::new(o);
                cu.set_position(((arg / 2) % (n + 3)) as u64);
                for round in 0..4 {
                    let got = catch_unwind(AssertUnwindSafe(|| {
                        let c = Buf::chunk(&cu);
                        (c.as_ptr() as usize, c.len())
                    }));
                    if let Ok((p, l)) = got {
                        if l > 0 && !ranges.iter().any(|&(rp, rl)| p >= rp && p + l <= rp + rl && l <= rl) {
                            bogus = Some(format!("Cursor<T>::chunk() returned {} bytes at {:#x}, outside every slice T::as_ref ever returned (round {})", l, p, round));
                            break;
                        }
                    }
                    let _ = catch_unwind(AssertUnwindSafe(|| Buf::remaining(&cu)));
                    let mut d = [0u8; 8];
                    let k = (arg + round) % 9;
                    let _ = catch_unwind(AssertUnwindSafe(|| cu.copy_to_slice(&mut d[..k])));
                    let _ = catch_unwind(AssertUnwindSafe(|| cu.get_u16_le()));
                    let _ = catch_unwind(AssertUnwindSafe(|| cu.advance(1 + round)));
                    let _ = catch_unwind(AssertUnwindSafe(|| cu.copy_to_bytes(k / 2)));
                }
                fired += 1;
            }
            "bytesmut_put" | "bytesmut_put_twice" => {
                let mut m = BytesMut::with_capacity(arg % 40);
                m.extend_from_slice(b"head");
                let l = mk_liar(case, 0);
                // `put` takes the source by value; use a by-ref forwarder so `fired` stays readable
                let _ = catch_unwind(AssertUnwindSafe(|| m.put(ByRef(&l))));
                fired += l.fired();
                if consumer == "bytesmut_put_twice" {
                    let l2 = mk_liar(case, 7);
                    let _ = catch_unwind(AssertUnwindSafe(|| m.put(ByRef(&l2))));
                    fired += l2.fired();
                }
                let _ = m.len();
                drop(m);
            }
            "vec_put" => {
                let mut v: Vec<u8> = Vec::with_capacity(arg % 40);
                let l = mk_liar(case, 0);
                let _ = catch_unwind(AssertUnwindSafe(|| v.put(ByRef(&l))));
                fired += l.fired();
            }
            "slice_put" | "uninit_put" => {
                let cap = arg;
                let mut fr = framed(cap);
                {
                    let l = mk_liar(case, 0);
                    let payload = &mut fr[G..G + cap];
                    if consumer == "slice_put" {
                        let mut t: &mut [u8] = payload;
                        let _ = catch_unwind(AssertUnwindSafe(|| t.put(ByRef(&l))));
                    } else {
                        let u: &mut [std::mem::MaybeUninit<u8>] = unsafe { std::slice::from_raw_parts_mut(payload.as_mut_ptr() as *mut _, cap) };
                        let mut t = u;
                        let _ = catch_unwind(AssertUnwindSafe(|| t.put(ByRef(&l))));
                    }
                    fired += l.fired();
                }
                if !frame_ok(&fr, cap) {
                    guard_bad = true;
                }
            }
            "limit_put" => {
                let l = mk_liar(case, 0);
                let mut t = Vec::with_capacity(8).limit(arg);
                let _ = catch_unwind(AssertUnwindSafe(|| t.put(ByRef(&l))));
                fired += l.fired();
            }
            "chain_mut_put" => {
                let cap = arg % 24;
                let mut fr = framed(cap);
                {
                    let l = mk_liar(case, 0);
                    let payload = &mut fr[G..G + cap];
                    let mut t = (&mut *payload).chain_mut(Vec::new());
                    let _ = catch_unwind(AssertUnwindSafe(|| t.put(ByRef(&l))));
                    fired += l.fired();
                }
                if !frame_ok(&fr, cap) {
                    guard_bad = true;
                }
            }
            "put_take" => {
                let l = mk_liar(case, 0);
                let mut m = BytesMut::new();
                let _ = catch_unwind(AssertUnwindSafe(|| m.put(ByRef(&l).take(arg))));
                let mut v = Vec::new();
                let _ = catch_unwind(AssertUnwindSafe(|| v.put(ByRef(&l).take(arg))));
                fired += l.fired();
            }
            "put_chain" => {
                let l = mk_liar(case, 0);
                let l2 = mk_liar(case, 3);
                let mut m = BytesMut::new();
                let _ = catch_unwind(AssertUnwindSafe(|| m.put(ByRef(&l).chain(&b"tail"[..]).chain(ByRef(&l2)))));
                fired += l.fired() + l2.fired();
            }
            "copy_to_bytes" => {
                let mut l = mk_liar(case, 0);
                let r = catch_unwind(AssertUnwindSafe(|| l.copy_to_bytes(arg)));
                if let Ok(b) = r {
                    let _ = b.len();
                    let _c = b.clone();
                }
                fired += l.fired();
            }
            "copy_to_slice" | "try_copy_to_slice" => {
                let mut l = mk_liar(case, 0);
                let mut fr = framed(arg);
                {
                    let dst = &mut fr[G..G + arg];
                    let tc = consumer == "try_copy_to_slice";
                    let _ = catch_unwind(AssertUnwindSafe(|| {
                        if tc {
                            let _ = l.try_copy_to_slice(dst);
                        } else {
                            l.copy_to_slice(dst)
                        }
                    }));
                }
                if !frame_ok(&fr, arg) {
                    guard_bad = true;
                }
                fired += l.fired();
            }
            "typed_get" => {
                let mut l = mk_liar(case, 0);
                let mut names: Vec<String> = Vec::new();
                for f in gets::FIXED.iter().chain(gets::VAR.iter()) {
                    names.push(format!("get_{}", f));
                    names.push(format!("try_get_{}", f));
                }
                let mut rr = Rng::new(case.u64("seed"));
                for _ in 0..4 {
                    let m = rr.pick(&names).clone();
                    let nb = rr.range(0, 8);
                    let _ = catch_unwind(AssertUnwindSafe(|| gets::call(&mut l, &m, nb)));
                }
                fired += l.fired();
            }
            "take_ops" => {
                let l = mk_liar(case, 0);
                let mut t = ByRef(&l).take(arg);
                let _ = catch_unwind(AssertUnwindSafe(|| {
                    let mut dst = [IoSlice::new(&[]); 40];
                    let n = t.chunks_vectored(&mut dst[..(arg % 41)]);
                    let mut tot = 0usize;
                    for s in dst.iter().take(n.min(40)) {
                        tot += s.iter().map(|&b| b as usize).sum::<usize>();
                    }
                    tot
                }));
                let _ = catch_unwind(AssertUnwindSafe(|| t.copy_to_bytes(arg / 2)));
                let _ = catch_unwind(AssertUnwindSafe(|| t.advance(arg / 3)));
                let _ = catch_unwind(AssertUnwindSafe(|| t.chunk().iter().map(|&b| b as usize).sum::<usize>()));
                fired += l.fired();
            }
            "chain_ops" => {
                let l = mk_liar(case, 0);
                let l2 = mk_liar(case, 5);
                let mut c = ByRef(&l).chain(ByRef(&l2));
                let _ = catch_unwind(AssertUnwindSafe(|| {
                    let mut dst = [IoSlice::new(&[]); 8];
                    let n = c.chunks_vectored(&mut dst);
                    dst.iter().take(n.min(8)).map(|s| s.len()).sum::<usize>()
                }));
                let _ = catch_unwind(AssertUnwindSafe(|| c.copy_to_bytes(arg)));
                let _ = catch_unwind(AssertUnwindSafe(|| c.advance(arg / 2)));
                let _ = catch_unwind(AssertUnwindSafe(|| c.get_u64()));
                fired += l.fired() + l2.fired();
            }
            "reader" => {
                let l = mk_liar(case, 0);
                let mut rd = ByRef(&l).reader();
                let mut fr = framed(arg);
                {
                    let dst = &mut fr[G..G + arg];
                    let _ = catch_unwind(AssertUnwindSafe(|| rd.read(dst)));
                }
                if !frame_ok(&fr, arg) {
                    guard_bad = true;
                }
                let _ = catch_unwind(AssertUnwindSafe(|| {
                    let n = rd.fill_buf().map(|s| s.len()).unwrap_or(0);
                    rd.consume(n.min(arg));
                }));
                let mut v = Vec::new();
                let _ = catch_unwind(AssertUnwindSafe(|| rd.read_to_end(&mut v)));
                fired += l.fired();
            }
            "into_iter" => {
                let l = mk_liar(case, 0);
                let it = IntoIter::new(ByRef(&l));
                let _ = catch_unwind(AssertUnwindSafe(|| it.take(300).map(|b| b as usize).sum::<usize>()));
                fired += l.fired();
            }
            "from_owner" => {
                let o = LyingOwner { a: Rng::new(case.u64("seed")).bytes(case.us("n")), b: vec![1, 2, 3], calls: Default::default(), mode: arg % 3 };
                let ranges = [(o.a.as_ptr() as usize, o.a.len()), (o.b.as_ptr() as usize, o.b.len())];
                let r = catch_unwind(AssertUnwindSafe(|| Bytes::from_owner(o)));
                if let Ok(b) = r {
                    // whatever the owner answered, the view must be one of its answers (or part of one)
                    let (p, l) = (b.as_ptr() as usize, b.len());
                    if l > 0 && !ranges.iter().any(|&(rp, rl)| p >= rp && l <= rl && p + l <= rp + rl) {
                        bogus = Some(format!("Bytes::from_owner: the view ({} bytes at {:#x}) is not inside any slice the owner's as_ref returned", l, p));
                        return;
                    }
                    let c = b.clone();
                    let s = b.slice(..b.len() / 2);
                    let _ = catch_unwind(AssertUnwindSafe(|| Vec::from(c)));
                    let _ = catch_unwind(AssertUnwindSafe(|| BytesMut::from(s)));
                    let _ = b.iter().map(|&x| x as usize).sum::<usize>();
                }
                fired += 1;
            }
            "extend_iter" | "from_iter" | "bytes_from_iter" => {
                let left = case.us("n");
                let hint = match arg % 5 {
                    0 => (0, None),
                    1 => (left + 1 + arg, Some(left)),
                    2 => (isize::MAX as usize + 1 + arg, None),
                    3 => (usize::MAX, Some(0)),
                    _ => (left / 4, Some(left / 4)),
                };
                let pa = match arg % 6 {
                    0 => Some(left / 2),
                    1 => Some(left.saturating_sub(1)),
                    2 => Some(left * 3 / 4),
                    _ => None,
                };
                let mk = || LyingIter { left, hint, panic_at: pa, n: 0 };
                match consumer.as_str() {
                    "extend_iter" => {
                        let mut m = BytesMut::from(&b"xy"[..]);
                        let _ = catch_unwind(AssertUnwindSafe(|| m.extend(mk())));
                    }
                    "from_iter" => {
                        let _ = catch_unwind(AssertUnwindSafe(|| mk().collect::<BytesMut>()));
                    }
                    _ => {
                        let _ = catch_unwind(AssertUnwindSafe(|| mk().collect::<Bytes>()));
                    }
                }
                fired += 1;
            }
            _ => {
                // &mut / Box forwarders over a liar
                let mut l = mk_liar(case, 0);
                {
                    let mut r: &mut Liar = &mut l;
                    let _ = catch_unwind(AssertUnwindSafe(|| Buf::copy_to_bytes(&mut r, arg)));
                    let _ = catch_unwind(AssertUnwindSafe(|| Buf::get_u32(&mut r)));
                }
                let mut b: Box<dyn Buf> = Box::new(ByRef(&l));
                let _ = catch_unwind(AssertUnwindSafe(|| b.copy_to_bytes(arg / 2)));
                let _ = catch_unwind(AssertUnwindSafe(|| b.get_i16_le()));
                drop(b);
                fired += l.fired();
            }
        }
    }));
    if let Err(p) = r {
        // a panic escaping the inner catch_unwinds (e.g. in Drop) is still only a panic
        let _ = rt::panic_message(&*p);
    }
    if let Some(detail) = bogus {
        viol.push(Violation { props: vec!["C17"], kind: "chunk-outside-owner-memory".into(), detail, step: 0 });
    }
    if guard_bad {
        viol.push(Violation {
            props: vec!["C17"],
            kind: "guard-bytes-overwritten".into(),
            detail: format!("consumer {}: bytes outside the fixed-size target were modified while consuming a lying Buf", consumer),
            step: 0,
        });
    }
    *probes.entry("lies_fired").or_insert(0) += fired;
    if fired > 0 {
        *probes.entry("cases_with_fired_lie").or_insert(0) += 1;
    }
    let mut d = rt::Fnv::default();
    d.str(&consumer);
    d.u64(fired);
    Outcome { viol, ops: vec![], steps: 1, panics: 0, straddles: 0, shortfalls: fired, probes, digest: d.0 }
}

/// By-reference forwarder so the harness keeps access to the liar's counters after a
/// consumer took the source by value.
pub struct ByRef<'a>(pub &'a Liar);
impl<'a> Buf for ByRef<'a> {
    fn remaining(&self) -> usize {
        self.0.rem()
    }
    fn chunk(&self) -> &[u8] {
        self.0.chk()
    }
    fn advance(&mut self, cnt: usize) {
        self.0.adv(cnt)
    }
    fn chunks_vectored<'b>(&'b self, dst: &mut [IoSlice<'b>]) -> usize {
        self.0.vect(dst)
    }
}
