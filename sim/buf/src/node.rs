//! Read-side nests: a closed enum over every `Buf` implementor of the crate that
//! forwards *every* trait method (so specialised overrides are the ones exercised),
//! built from a JSON plan so a run is an exactly replayable (plan, ops) pair.

use std::collections::VecDeque;
use std::io::{Cursor, IoSlice};

use bytes::buf::{Chain, Take};
use bytes::{Buf, Bytes, BytesMut, TryGetError};
use rt::{Rng, J};

/// Honest segmented Buf (the short-read analogue): `chunk()` skips empty segments,
/// `chunks_vectored` starts at the first non-empty segment but may list later empty ones.
pub struct SegBuf {
    pub segs: Vec<Vec<u8>>,
    pub i: usize,
    pub off: usize,
}
impl SegBuf {
    /// many 1-2 byte segments: more chunks than any fixed-size scratch array of an adapter
    pub fn from_fine(data: &[u8], seed: u64) -> SegBuf {
        let mut rng = Rng::new(seed);
        let mut segs = Vec::new();
        let mut p = 0;
        while p < data.len() {
            let n = (1 + rng.below(2) as usize).min(data.len() - p);
            segs.push(data[p..p + n].to_vec());
            p += n;
        }
        let mut s = SegBuf { segs, i: 0, off: 0 };
        s.skip();
        s
    }
    pub fn from_cuts(data: &[u8], seed: u64) -> SegBuf {
        let mut rng = Rng::new(seed);
        let mut segs = Vec::new();
        let mut p = 0;
        if rng.chance(1, 4) {
            segs.push(Vec::new());
        }
        while p < data.len() {
            let n = match rng.below(5) {
                0 => 1,
                1 => 2,
                2 => rng.range(1, 4),
                3 => rng.range(1, 9),
                _ => rng.range(1, 40),
            }
            .min(data.len() - p);
            segs.push(data[p..p + n].to_vec());
            p += n;
            if rng.chance(1, 5) {
                segs.push(Vec::new());
            }
        }
        let mut s = SegBuf { segs, i: 0, off: 0 };
        s.skip();
        s
    }
    fn skip(&mut self) {
        while self.i < self.segs.len() && self.off >= self.segs[self.i].len() {
            self.i += 1;
            self.off = 0;
        }
    }
}
impl Buf for SegBuf {
    fn remaining(&self) -> usize {
        let mut n = 0usize;
        for k in self.i..self.segs.len() {
            n += self.segs[k].len();
        }
        n - self.off.min(n)
    }
    fn chunk(&self) -> &[u8] {
        if self.i < self.segs.len() {
            &self.segs[self.i][self.off..]
        } else {
            &[]
        }
    }
    fn advance(&mut self, mut cnt: usize) {
        assert!(cnt <= self.remaining(), "SegBuf: advance past end");
        while cnt > 0 {
            let left = self.segs[self.i].len() - self.off;
            let t = left.min(cnt);
            self.off += t;
            cnt -= t;
            self.skip();
        }
        self.skip();
    }
    fn chunks_vectored<'a>(&'a self, dst: &mut [IoSlice<'a>]) -> usize {
        let mut n = 0;
        let mut k = self.i;
        let mut off = self.off;
        while k < self.segs.len() && n < dst.len() {
            dst[n] = IoSlice::new(&self.segs[k][off..]);
            n += 1;
            k += 1;
            off = 0;
        }
        n
    }
}

/// The same honest segmented Buf, but relying on the trait's *default*
/// `chunks_vectored` (which reports the first chunk only) — lawful on its own.
pub struct SegDefault(pub SegBuf);
impl Buf for SegDefault {
    fn remaining(&self) -> usize {
        self.0.remaining()
    }
    fn chunk(&self) -> &[u8] {
        self.0.chunk()
    }
    fn advance(&mut self, cnt: usize) {
        self.0.advance(cnt)
    }
}

pub enum Node<'a> {
    SegD(SegDefault),
    Slice(&'a [u8]),
    Bytes(Bytes),
    BytesMut(BytesMut),
    CursorVec(Cursor<Vec<u8>>),
    CursorSlice(Cursor<&'a [u8]>),
    CursorBytes(Cursor<Bytes>),
    Deque(VecDeque<u8>),
    Seg(SegBuf),
    Chain(Box<Chain<Node<'a>, Node<'a>>>),
    Take(Box<Take<Node<'a>>>),
    MutRef(Box<Node<'a>>),
    Boxed(Box<Node<'a>>),
    Dyn(Box<dyn Buf + 'a>),
}

macro_rules! fwd_ref {
    ($self:ident, $m:ident ( $($a:expr),* )) => {
        match $self {
            Node::SegD(x) => x.$m($($a),*),
            Node::Slice(x) => x.$m($($a),*),
            Node::Bytes(x) => x.$m($($a),*),
            Node::BytesMut(x) => x.$m($($a),*),
            Node::CursorVec(x) => x.$m($($a),*),
            Node::CursorSlice(x) => x.$m($($a),*),
            Node::CursorBytes(x) => x.$m($($a),*),
            Node::Deque(x) => x.$m($($a),*),
            Node::Seg(x) => x.$m($($a),*),
            Node::Chain(x) => x.$m($($a),*),
            Node::Take(x) => x.$m($($a),*),
            Node::MutRef(x) => (**x).$m($($a),*),
            Node::Boxed(x) => Buf::$m(x $(, $a)*),
            Node::Dyn(x) => x.$m($($a),*),
        }
    };
}
macro_rules! fwd_mut {
    ($self:ident, $m:ident ( $($a:expr),* )) => {
        match $self {
            Node::SegD(x) => x.$m($($a),*),
            Node::Slice(x) => x.$m($($a),*),
            Node::Bytes(x) => x.$m($($a),*),
            Node::BytesMut(x) => x.$m($($a),*),
            Node::CursorVec(x) => x.$m($($a),*),
            Node::CursorSlice(x) => x.$m($($a),*),
            Node::CursorBytes(x) => x.$m($($a),*),
            Node::Deque(x) => x.$m($($a),*),
            Node::Seg(x) => x.$m($($a),*),
            Node::Chain(x) => x.$m($($a),*),
            Node::Take(x) => x.$m($($a),*),
            // through the `impl Buf for &mut T` forwarder
            Node::MutRef(x) => {
                let mut r: &mut Node<'a> = &mut **x;
                Buf::$m(&mut r $(, $a)*)
            }
            // through the `impl Buf for Box<T>` forwarder
            Node::Boxed(x) => Buf::$m(x $(, $a)*),
            Node::Dyn(x) => x.$m($($a),*),
        }
    };
}

macro_rules! fwd_getters {
    ($( $name:ident -> $t:ty ),* $(,)?) => {
        $( fn $name(&mut self) -> $t { fwd_mut!(self, $name()) } )*
    };
}
macro_rules! fwd_getters_n {
    ($( $name:ident -> $t:ty ),* $(,)?) => {
        $( fn $name(&mut self, nbytes: usize) -> $t { fwd_mut!(self, $name(nbytes)) } )*
    };
}

impl<'a> Buf for Node<'a> {
    fn remaining(&self) -> usize {
        fwd_ref!(self, remaining())
    }
    fn chunk(&self) -> &[u8] {
        fwd_ref!(self, chunk())
    }
    fn chunks_vectored<'b>(&'b self, dst: &mut [IoSlice<'b>]) -> usize {
        match self {
            Node::SegD(x) => x.chunks_vectored(dst),
            Node::Slice(x) => x.chunks_vectored(dst),
            Node::Bytes(x) => x.chunks_vectored(dst),
            Node::BytesMut(x) => x.chunks_vectored(dst),
            Node::CursorVec(x) => x.chunks_vectored(dst),
            Node::CursorSlice(x) => x.chunks_vectored(dst),
            Node::CursorBytes(x) => x.chunks_vectored(dst),
            Node::Deque(x) => x.chunks_vectored(dst),
            Node::Seg(x) => x.chunks_vectored(dst),
            Node::Chain(x) => x.chunks_vectored(dst),
            Node::Take(x) => x.chunks_vectored(dst),
            Node::MutRef(x) => (**x).chunks_vectored(dst),
            Node::Boxed(x) => Buf::chunks_vectored(x, dst),
            Node::Dyn(x) => x.chunks_vectored(dst),
        }
    }
    fn advance(&mut self, cnt: usize) {
        fwd_mut!(self, advance(cnt))
    }
    fn has_remaining(&self) -> bool {
        fwd_ref!(self, has_remaining())
    }
    fn copy_to_slice(&mut self, dst: &mut [u8]) {
        fwd_mut!(self, copy_to_slice(dst))
    }
    fn try_copy_to_slice(&mut self, dst: &mut [u8]) -> Result<(), TryGetError> {
        fwd_mut!(self, try_copy_to_slice(dst))
    }
    fn copy_to_bytes(&mut self, len: usize) -> Bytes {
        fwd_mut!(self, copy_to_bytes(len))
    }
    fwd_getters! {
        get_u8 -> u8, get_i8 -> i8,
        get_u16 -> u16, get_u16_le -> u16, get_u16_ne -> u16,
        get_i16 -> i16, get_i16_le -> i16, get_i16_ne -> i16,
        get_u32 -> u32, get_u32_le -> u32, get_u32_ne -> u32,
        get_i32 -> i32, get_i32_le -> i32, get_i32_ne -> i32,
        get_u64 -> u64, get_u64_le -> u64, get_u64_ne -> u64,
        get_i64 -> i64, get_i64_le -> i64, get_i64_ne -> i64,
        get_u128 -> u128, get_u128_le -> u128, get_u128_ne -> u128,
        get_i128 -> i128, get_i128_le -> i128, get_i128_ne -> i128,
        get_f32 -> f32, get_f32_le -> f32, get_f32_ne -> f32,
        get_f64 -> f64, get_f64_le -> f64, get_f64_ne -> f64,
        try_get_u8 -> Result<u8, TryGetError>, try_get_i8 -> Result<i8, TryGetError>,
        try_get_u16 -> Result<u16, TryGetError>, try_get_u16_le -> Result<u16, TryGetError>, try_get_u16_ne -> Result<u16, TryGetError>,
        try_get_i16 -> Result<i16, TryGetError>, try_get_i16_le -> Result<i16, TryGetError>, try_get_i16_ne -> Result<i16, TryGetError>,
        try_get_u32 -> Result<u32, TryGetError>, try_get_u32_le -> Result<u32, TryGetError>, try_get_u32_ne -> Result<u32, TryGetError>,
        try_get_i32 -> Result<i32, TryGetError>, try_get_i32_le -> Result<i32, TryGetError>, try_get_i32_ne -> Result<i32, TryGetError>,
        try_get_u64 -> Result<u64, TryGetError>, try_get_u64_le -> Result<u64, TryGetError>, try_get_u64_ne -> Result<u64, TryGetError>,
        try_get_i64 -> Result<i64, TryGetError>, try_get_i64_le -> Result<i64, TryGetError>, try_get_i64_ne -> Result<i64, TryGetError>,
        try_get_u128 -> Result<u128, TryGetError>, try_get_u128_le -> Result<u128, TryGetError>, try_get_u128_ne -> Result<u128, TryGetError>,
        try_get_i128 -> Result<i128, TryGetError>, try_get_i128_le -> Result<i128, TryGetError>, try_get_i128_ne -> Result<i128, TryGetError>,
        try_get_f32 -> Result<f32, TryGetError>, try_get_f32_le -> Result<f32, TryGetError>, try_get_f32_ne -> Result<f32, TryGetError>,
        try_get_f64 -> Result<f64, TryGetError>, try_get_f64_le -> Result<f64, TryGetError>, try_get_f64_ne -> Result<f64, TryGetError>,
    }
    fwd_getters_n! {
        get_uint -> u64, get_uint_le -> u64, get_uint_ne -> u64,
        get_int -> i64, get_int_le -> i64, get_int_ne -> i64,
        try_get_uint -> Result<u64, TryGetError>, try_get_uint_le -> Result<u64, TryGetError>, try_get_uint_ne -> Result<u64, TryGetError>,
        try_get_int -> Result<i64, TryGetError>, try_get_int_le -> Result<i64, TryGetError>, try_get_int_ne -> Result<i64, TryGetError>,
    }
}

// ------------------------------------------------------------------ plans

pub const LEAF_KINDS: &[&str] = &[
    "slice", "bytes_static", "bytes_vec", "bytes_shared", "bytes_owner", "bytes_mut", "bytes_mut_off", "bytes_mut_shared",
    "cursor_vec", "cursor_slice", "cursor_bytes", "cursor_beyond", "deque", "deque_wrapped", "seg", "seg_default", "seg_fine",
];

/// Random plan of depth <= `depth`. Leaves carry {seed, n}; the logical sequence a
/// plan exposes is computed by `expose`.
pub fn gen_plan(rng: &mut Rng, depth: usize, max_leaf: usize) -> J {
    let leafy = depth == 0 || rng.chance(2, 5);
    if leafy {
        let k = *rng.pick(LEAF_KINDS);
        let n = match rng.below(8) {
            0 => 0,
            1 => 1,
            2 => rng.range(1, 4),
            3 | 4 => rng.range(1, 20),
            _ => rng.range(0, max_leaf),
        };
        let mut j = J::obj().set("k", k).set("seed", rng.next_u64()).set("n", n);
        if k == "bytes_mut_off" || k == "cursor_vec" || k == "cursor_slice" || k == "cursor_bytes" || k == "deque_wrapped" {
            j = j.set("pre", rng.range(0, 9));
        }
        if k == "cursor_beyond" {
            j = j.set("pre", rng.range(1, 5));
        }
        return j;
    }
    match rng.below(7) {
        0 | 1 | 2 => J::obj().set("k", "chain").set("a", gen_plan(rng, depth - 1, max_leaf)).set("b", gen_plan(rng, depth - 1, max_leaf)),
        3 | 4 => {
            let inner = gen_plan(rng, depth - 1, max_leaf);
            let il = expose(&inner).len();
            let lim = match rng.below(8) {
                0 => 0,
                1 => il,
                2 => il + 1,
                3 => usize::MAX,
                4 => il.saturating_sub(1),
                5 => il + rng.range(1, 1000),
                _ => rng.range(0, il),
            };
            J::obj().set("k", "take").set("lim", lim).set("in", inner)
        }
        5 => J::obj().set("k", *rng.pick(&["mutref", "box"])).set("in", gen_plan(rng, depth - 1, max_leaf)),
        _ => J::obj().set("k", "dyn").set("in", gen_plan(rng, depth - 1, max_leaf)),
    }
}

pub fn leaf_data(p: &J) -> Vec<u8> {
    let n = p.us("n").min(1 << 16);
    if let Some(h) = p.str("hex") {
        return (0..h.len() / 2).map(|i| u8::from_str_radix(&h[2 * i..2 * i + 2], 16).unwrap_or(0)).collect();
    }
    if p.str("k") == Some("cursor_beyond") {
        return Vec::new();
    }
    if p.str("k") == Some("bytes_static") {
        let n = n.min(4096);
        let off = (p.u64("seed") as usize) % (4096 - n + 1);
        return STATIC_POOL[off..off + n].to_vec();
    }
    Rng::new(p.u64("seed")).bytes(n)
}

/// The logical byte sequence a plan denotes.
pub fn expose(p: &J) -> Vec<u8> {
    match p.str("k").unwrap_or("") {
        "chain" => {
            let mut a = expose(p.get("a").unwrap());
            a.extend(expose(p.get("b").unwrap()));
            a
        }
        "take" => {
            let mut v = expose(p.get("in").unwrap());
            v.truncate(p.us("lim").min(v.len()));
            v
        }
        "mutref" | "box" | "dyn" => expose(p.get("in").unwrap()),
        _ => leaf_data(p),
    }
}

/// Leaves in left-to-right order need backing storage that outlives the nest
/// (`&[u8]` and `Cursor<&[u8]>` borrow): the arena holds one Vec per leaf.
pub fn collect_arena(p: &J, arena: &mut Vec<Vec<u8>>) {
    match p.str("k").unwrap_or("") {
        "chain" => {
            collect_arena(p.get("a").unwrap(), arena);
            collect_arena(p.get("b").unwrap(), arena);
        }
        "take" | "mutref" | "box" | "dyn" => collect_arena(p.get("in").unwrap(), arena),
        k => {
            let d = leaf_data(p);
            let pre = p.us("pre");
            if k == "cursor_slice" {
                let mut v = vec![0xEE; pre];
                v.extend_from_slice(&d);
                arena.push(v);
            } else {
                arena.push(d);
            }
        }
    }
}

pub struct OwnedVec(pub Vec<u8>);
impl AsRef<[u8]> for OwnedVec {
    fn as_ref(&self) -> &[u8] {
        &self.0
    }
}

static STATIC_POOL: [u8; 4096] = {
    let mut a = [0u8; 4096];
    let mut i = 0;
    let mut x: u32 = 99;
    while i < 4096 {
        x = x.wrapping_mul(1103515245).wrapping_add(12345);
        a[i] = (x >> 16) as u8;
        i += 1;
    }
    a
};

pub fn build<'a>(p: &J, arena: &'a [Vec<u8>], next: &mut usize) -> Node<'a> {
    match p.str("k").unwrap_or("") {
        "chain" => {
            let a = build(p.get("a").unwrap(), arena, next);
            let b = build(p.get("b").unwrap(), arena, next);
            Node::Chain(Box::new(a.chain(b)))
        }
        "take" => {
            let i = build(p.get("in").unwrap(), arena, next);
            Node::Take(Box::new(i.take(p.us("lim"))))
        }
        "mutref" => Node::MutRef(Box::new(build(p.get("in").unwrap(), arena, next))),
        "box" => Node::Boxed(Box::new(build(p.get("in").unwrap(), arena, next))),
        "dyn" => Node::Dyn(Box::new(build(p.get("in").unwrap(), arena, next))),
        k => {
            let slot = &arena[*next];
            *next += 1;
            let pre = p.us("pre");
            let d: &'a [u8] = &slot[..];
            match k {
                "slice" => Node::Slice(d),
                "bytes_static" => {
                    let n = d.len();
                    let off = (p.u64("seed") as usize) % (4096 - n + 1);
                    Node::Bytes(Bytes::from_static(&STATIC_POOL[off..off + n]))
                }
                "bytes_vec" => Node::Bytes(Bytes::from(d.to_vec())),
                "bytes_shared" => {
                    let b = Bytes::from(d.to_vec());
                    let c = b.clone();
                    drop(b);
                    Node::Bytes(c)
                }
                "bytes_owner" => Node::Bytes(Bytes::from_owner(OwnedVec(d.to_vec()))),
                "bytes_mut" => Node::BytesMut(BytesMut::from(d)),
                "bytes_mut_off" => {
                    let mut m = BytesMut::with_capacity(pre + d.len() + 3);
                    m.extend_from_slice(&vec![0xEE; pre]);
                    m.extend_from_slice(d);
                    m.advance(pre);
                    Node::BytesMut(m)
                }
                "bytes_mut_shared" => {
                    let mut m = BytesMut::with_capacity(d.len() + 8);
                    m.extend_from_slice(d);
                    m.extend_from_slice(b"tail");
                    let tail = m.split_off(d.len());
                    drop(tail);
                    Node::BytesMut(m)
                }
                "cursor_vec" => {
                    let mut v = vec![0xEE; pre];
                    v.extend_from_slice(d);
                    let mut c = Cursor::new(v);
                    c.set_position(pre as u64);
                    Node::CursorVec(c)
                }
                "cursor_slice" => {
                    let mut c = Cursor::new(d);
                    c.set_position(pre as u64);
                    Node::CursorSlice(c)
                }
                "cursor_bytes" => {
                    let mut v = vec![0xEE; pre];
                    v.extend_from_slice(d);
                    let mut c = Cursor::new(Bytes::from(v));
                    c.set_position(pre as u64);
                    Node::CursorBytes(c)
                }
                "cursor_beyond" => {
                    let mut c = Cursor::new(vec![0xEE; 3]);
                    c.set_position(3 + pre as u64);
                    Node::CursorVec(c)
                }
                "deque" => Node::Deque(d.iter().copied().collect()),
                "deque_wrapped" => {
                    // rotate so that as_slices() returns two parts
                    let mut q: VecDeque<u8> = VecDeque::with_capacity(d.len().max(4));
                    let cap = q.capacity();
                    let rot = if cap > 0 { (pre * 7 + 3) % cap } else { 0 };
                    for _ in 0..rot {
                        q.push_back(0);
                    }
                    for _ in 0..rot {
                        q.pop_front();
                    }
                    for &b in d {
                        q.push_back(b);
                    }
                    Node::Deque(q)
                }
                "seg_default" => Node::SegD(SegDefault(SegBuf::from_cuts(d, p.u64("seed") ^ 0x5e6))),
                "seg_fine" => Node::Seg(SegBuf::from_fine(d, p.u64("seed") ^ 0x5e6)),
                _ => Node::Seg(SegBuf::from_cuts(d, p.u64("seed") ^ 0x5e6)),
            }
        }
    }
}

/// How much of each leaf should be left after `consumed` bytes went through the
/// plan's front: used for the final deep inspection (C12).
pub struct Deep {
    pub problems: Vec<String>,
    pub leaves_checked: usize,
    pub adapters_checked: usize,
}

fn drain(n: &mut Node) -> Vec<u8> {
    let mut out = Vec::new();
    let mut guard = 0;
    while n.has_remaining() && guard < 1_000_000 {
        let c = n.chunk();
        if c.is_empty() {
            break;
        }
        let l = c.len();
        out.extend_from_slice(c);
        n.advance(l);
        guard += 1;
    }
    out
}

/// Recursively `into_inner()` the nest and compare every leaf's leftover with the
/// expected suffix. `consumed` = bytes that went through this node.
pub fn deep_inspect(node: Node, plan: &J, consumed: usize, d: &mut Deep, path: &str) {
    match (node, plan.str("k").unwrap_or("")) {
        (Node::Chain(c), "chain") => {
            let pa = plan.get("a").unwrap();
            let pb = plan.get("b").unwrap();
            let la = expose(pa).len();
            let ca = consumed.min(la);
            let cb = consumed - ca;
            if c.first_ref().remaining() != la - ca {
                d.problems.push(format!("{}: Chain::first_ref().remaining() = {}, expected {}", path, c.first_ref().remaining(), la - ca));
            }
            let lb = expose(pb).len();
            if c.last_ref().remaining() != lb - cb.min(lb) {
                d.problems.push(format!("{}: Chain::last_ref().remaining() = {}, expected {}", path, c.last_ref().remaining(), lb - cb.min(lb)));
            }
            d.adapters_checked += 1;
            let (a, b) = c.into_inner();
            deep_inspect(a, pa, ca, d, &format!("{}.a", path));
            deep_inspect(b, pb, cb, d, &format!("{}.b", path));
        }
        (Node::Take(t), "take") => {
            let pi = plan.get("in").unwrap();
            let lim = plan.us("lim");
            if t.limit() != lim - consumed.min(lim) {
                d.problems.push(format!("{}: Take::limit() = {}, expected {} (initial {}, {} went through)", path, t.limit(), lim - consumed.min(lim), lim, consumed));
            }
            let il = expose(pi).len();
            if t.get_ref().remaining() != il - consumed.min(il) {
                d.problems.push(format!("{}: Take::get_ref().remaining() = {}, expected {}", path, t.get_ref().remaining(), il - consumed.min(il)));
            }
            d.adapters_checked += 1;
            deep_inspect(t.into_inner(), pi, consumed, d, &format!("{}.in", path));
        }
        (Node::MutRef(i), "mutref") | (Node::Boxed(i), "box") => deep_inspect(*i, plan.get("in").unwrap(), consumed, d, &format!("{}.in", path)),
        (Node::Dyn(mut i), "dyn") => {
            // cannot be taken apart: compare what is left through the trait object
            let want = expose(plan.get("in").unwrap());
            let mut got = Vec::new();
            while i.has_remaining() {
                let c = i.chunk();
                if c.is_empty() {
                    break;
                }
                let l = c.len();
                got.extend_from_slice(c);
                i.advance(l);
            }
            d.leaves_checked += 1;
            if got[..] != want[consumed.min(want.len())..] {
                d.problems.push(format!("{}: dyn Buf leftover {} bytes, expected {}", path, got.len(), want.len() - consumed.min(want.len())));
            }
        }
        (mut leaf, _) => {
            let want = leaf_data(plan);
            let got = drain(&mut leaf);
            d.leaves_checked += 1;
            if got[..] != want[consumed.min(want.len())..] {
                d.problems.push(format!(
                    "{} ({}): inner buffer has {} bytes left, expected {} ({} of {} went through)",
                    path,
                    plan.str("k").unwrap_or("?"),
                    got.len(),
                    want.len() - consumed.min(want.len()),
                    consumed,
                    want.len()
                ));
            }
        }
    }
}

#[allow(dead_code)]
pub fn static_pool() -> &'static [u8] {
    &STATIC_POOL
}
