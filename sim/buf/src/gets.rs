//! Typed read/write method tables: call-by-name on any Buf / BufMut, and the
//! independent expectation computed with from_{be,le,ne}_bytes on the flat model.

use bytes::{Buf, BufMut};

#[derive(Debug, Clone, PartialEq)]
pub enum R {
    /// canonical 128-bit image: unsigned zero-extended, signed sign-extended, floats by bits
    Val(u128),
    Err { requested: usize, available: usize },
}

pub const FIXED: &[&str] = &[
    "u8", "i8", "u16", "u16_le", "u16_ne", "i16", "i16_le", "i16_ne", "u32", "u32_le", "u32_ne", "i32", "i32_le", "i32_ne", "u64", "u64_le",
    "u64_ne", "i64", "i64_le", "i64_ne", "u128", "u128_le", "u128_ne", "i128", "i128_le", "i128_ne", "f32", "f32_le", "f32_ne", "f64",
    "f64_le", "f64_ne",
];
pub const VAR: &[&str] = &["uint", "uint_le", "uint_ne", "int", "int_le", "int_ne"];

macro_rules! fixed_calls {
    ($b:ident, $name:ident; $( $s:literal, $g:ident, $t:ident, $conv:expr );* $(;)?) => {
        $(
            if $name == concat!("get_", $s) {
                return Some(R::Val(($conv)($b.$g())));
            }
            if $name == concat!("try_get_", $s) {
                return Some(match $b.$t() {
                    Ok(v) => R::Val(($conv)(v)),
                    Err(e) => R::Err { requested: e.requested, available: e.available },
                });
            }
        )*
    };
}
macro_rules! var_calls {
    ($b:ident, $name:ident, $nb:ident; $( $s:literal, $g:ident, $t:ident, $conv:expr );* $(;)?) => {
        $(
            if $name == concat!("get_", $s) {
                return Some(R::Val(($conv)($b.$g($nb))));
            }
            if $name == concat!("try_get_", $s) {
                return Some(match $b.$t($nb) {
                    Ok(v) => R::Val(($conv)(v)),
                    Err(e) => R::Err { requested: e.requested, available: e.available },
                });
            }
        )*
    };
}

/// Call `name` ("get_u16_le", "try_get_int", ...) on `b`.
pub fn call<B: Buf>(b: &mut B, name: &str, nb: usize) -> Option<R> {
    fixed_calls! { b, name;
        "u8", get_u8, try_get_u8, |v: u8| v as u128;
        "i8", get_i8, try_get_i8, |v: i8| v as i128 as u128;
        "u16", get_u16, try_get_u16, |v: u16| v as u128;
        "u16_le", get_u16_le, try_get_u16_le, |v: u16| v as u128;
        "u16_ne", get_u16_ne, try_get_u16_ne, |v: u16| v as u128;
        "i16", get_i16, try_get_i16, |v: i16| v as i128 as u128;
        "i16_le", get_i16_le, try_get_i16_le, |v: i16| v as i128 as u128;
        "i16_ne", get_i16_ne, try_get_i16_ne, |v: i16| v as i128 as u128;
        "u32", get_u32, try_get_u32, |v: u32| v as u128;
        "u32_le", get_u32_le, try_get_u32_le, |v: u32| v as u128;
        "u32_ne", get_u32_ne, try_get_u32_ne, |v: u32| v as u128;
        "i32", get_i32, try_get_i32, |v: i32| v as i128 as u128;
        "i32_le", get_i32_le, try_get_i32_le, |v: i32| v as i128 as u128;
        "i32_ne", get_i32_ne, try_get_i32_ne, |v: i32| v as i128 as u128;
        "u64", get_u64, try_get_u64, |v: u64| v as u128;
        "u64_le", get_u64_le, try_get_u64_le, |v: u64| v as u128;
        "u64_ne", get_u64_ne, try_get_u64_ne, |v: u64| v as u128;
        "i64", get_i64, try_get_i64, |v: i64| v as i128 as u128;
        "i64_le", get_i64_le, try_get_i64_le, |v: i64| v as i128 as u128;
        "i64_ne", get_i64_ne, try_get_i64_ne, |v: i64| v as i128 as u128;
        "u128", get_u128, try_get_u128, |v: u128| v;
        "u128_le", get_u128_le, try_get_u128_le, |v: u128| v;
        "u128_ne", get_u128_ne, try_get_u128_ne, |v: u128| v;
        "i128", get_i128, try_get_i128, |v: i128| v as u128;
        "i128_le", get_i128_le, try_get_i128_le, |v: i128| v as u128;
        "i128_ne", get_i128_ne, try_get_i128_ne, |v: i128| v as u128;
        "f32", get_f32, try_get_f32, |v: f32| v.to_bits() as u128;
        "f32_le", get_f32_le, try_get_f32_le, |v: f32| v.to_bits() as u128;
        "f32_ne", get_f32_ne, try_get_f32_ne, |v: f32| v.to_bits() as u128;
        "f64", get_f64, try_get_f64, |v: f64| v.to_bits() as u128;
        "f64_le", get_f64_le, try_get_f64_le, |v: f64| v.to_bits() as u128;
        "f64_ne", get_f64_ne, try_get_f64_ne, |v: f64| v.to_bits() as u128;
    }
    var_calls! { b, name, nb;
        "uint", get_uint, try_get_uint, |v: u64| v as u128;
        "uint_le", get_uint_le, try_get_uint_le, |v: u64| v as u128;
        "uint_ne", get_uint_ne, try_get_uint_ne, |v: u64| v as u128;
        "int", get_int, try_get_int, |v: i64| v as i128 as u128;
        "int_le", get_int_le, try_get_int_le, |v: i64| v as i128 as u128;
        "int_ne", get_int_ne, try_get_int_ne, |v: i64| v as i128 as u128;
    }
    None
}

#[derive(Clone, Copy, Debug, PartialEq, Eq)]
pub enum Endian {
    Be,
    Le,
}
pub struct Meth {
    pub try_: bool,
    pub signed: bool,
    pub float: bool,
    pub var: bool,
    /// size in bytes for fixed-width methods
    pub size: usize,
    pub endian: Endian,
}

pub fn parse(name: &str) -> Option<Meth> {
    let (try_, rest) = match name.strip_prefix("try_get_") {
        Some(r) => (true, r),
        None => (false, name.strip_prefix("get_").or_else(|| name.strip_prefix("put_"))?),
    };
    let (ty, endian) = if let Some(t) = rest.strip_suffix("_le") {
        (t, Endian::Le)
    } else if let Some(t) = rest.strip_suffix("_ne") {
        (t, if cfg!(target_endian = "big") { Endian::Be } else { Endian::Le })
    } else {
        (rest, Endian::Be)
    };
    let (signed, float, var, size) = match ty {
        "u8" => (false, false, false, 1),
        "i8" => (true, false, false, 1),
        "u16" => (false, false, false, 2),
        "i16" => (true, false, false, 2),
        "u32" => (false, false, false, 4),
        "i32" => (true, false, false, 4),
        "u64" => (false, false, false, 8),
        "i64" => (true, false, false, 8),
        "u128" => (false, false, false, 16),
        "i128" => (true, false, false, 16),
        "f32" => (false, true, false, 4),
        "f64" => (false, true, false, 8),
        "uint" => (false, false, true, 8),
        "int" => (true, false, true, 8),
        _ => return None,
    };
    Some(Meth { try_, signed, float, var, size, endian })
}

/// Value denoted by `bytes` (exactly the value's bytes) per the method, as canonical u128.
pub fn decode(m: &Meth, bytes: &[u8]) -> u128 {
    let n = bytes.len();
    let mut be = [0u8; 16];
    // assemble magnitude big-endian, right-aligned
    match m.endian {
        Endian::Be => be[16 - n..].copy_from_slice(bytes),
        Endian::Le => {
            for (i, b) in bytes.iter().enumerate() {
                be[15 - i] = *b;
            }
        }
    }
    let raw = u128::from_be_bytes(be);
    if m.signed && n > 0 && n < 16 {
        let sign = (raw >> (n * 8 - 1)) & 1;
        if sign == 1 {
            return raw | (u128::MAX << (n * 8));
        }
    }
    raw
}

/// The bytes `put_<name>(value, nbytes)` must append; `value` is the canonical image.
pub fn encode(m: &Meth, value: u128, nb: usize) -> Vec<u8> {
    let n = if m.var { nb } else { m.size };
    let be = value.to_be_bytes();
    let mut out: Vec<u8> = be[16 - n..].to_vec();
    if m.endian == Endian::Le {
        out.reverse();
    }
    out
}

macro_rules! put_fixed {
    ($b:ident, $name:ident, $v:ident; $( $s:literal, $p:ident, $conv:expr );* $(;)?) => {
        $( if $name == concat!("put_", $s) { $b.$p(($conv)($v)); return true; } )*
    };
}
macro_rules! put_var {
    ($b:ident, $name:ident, $v:ident, $nb:ident; $( $s:literal, $p:ident, $conv:expr );* $(;)?) => {
        $( if $name == concat!("put_", $s) { $b.$p(($conv)($v), $nb); return true; } )*
    };
}

/// Call `put_<...>` by name with the canonical value image.
pub fn call_put<B: BufMut>(b: &mut B, name: &str, v: u128, nb: usize) -> bool {
    put_fixed! { b, name, v;
        "u8", put_u8, |v: u128| v as u8;
        "i8", put_i8, |v: u128| v as i8;
        "u16", put_u16, |v: u128| v as u16;
        "u16_le", put_u16_le, |v: u128| v as u16;
        "u16_ne", put_u16_ne, |v: u128| v as u16;
        "i16", put_i16, |v: u128| v as i16;
        "i16_le", put_i16_le, |v: u128| v as i16;
        "i16_ne", put_i16_ne, |v: u128| v as i16;
        "u32", put_u32, |v: u128| v as u32;
        "u32_le", put_u32_le, |v: u128| v as u32;
        "u32_ne", put_u32_ne, |v: u128| v as u32;
        "i32", put_i32, |v: u128| v as i32;
        "i32_le", put_i32_le, |v: u128| v as i32;
        "i32_ne", put_i32_ne, |v: u128| v as i32;
        "u64", put_u64, |v: u128| v as u64;
        "u64_le", put_u64_le, |v: u128| v as u64;
        "u64_ne", put_u64_ne, |v: u128| v as u64;
        "i64", put_i64, |v: u128| v as i64;
        "i64_le", put_i64_le, |v: u128| v as i64;
        "i64_ne", put_i64_ne, |v: u128| v as i64;
        "u128", put_u128, |v: u128| v;
        "u128_le", put_u128_le, |v: u128| v;
        "u128_ne", put_u128_ne, |v: u128| v;
        "i128", put_i128, |v: u128| v as i128;
        "i128_le", put_i128_le, |v: u128| v as i128;
        "i128_ne", put_i128_ne, |v: u128| v as i128;
        "f32", put_f32, |v: u128| f32::from_bits(v as u32);
        "f32_le", put_f32_le, |v: u128| f32::from_bits(v as u32);
        "f32_ne", put_f32_ne, |v: u128| f32::from_bits(v as u32);
        "f64", put_f64, |v: u128| f64::from_bits(v as u64);
        "f64_le", put_f64_le, |v: u128| f64::from_bits(v as u64);
        "f64_ne", put_f64_ne, |v: u128| f64::from_bits(v as u64);
    }
    put_var! { b, name, v, nb;
        "uint", put_uint, |v: u128| v as u64;
        "uint_le", put_uint_le, |v: u128| v as u64;
        "uint_ne", put_uint_ne, |v: u128| v as u64;
        "int", put_int, |v: u128| v as i64;
        "int_le", put_int_le, |v: u128| v as i64;
        "int_ne", put_int_ne, |v: u128| v as i64;
    }
    false
}
