"""Shared driver code: builds, parallel batches, crash journals, minimisation,
known findings, evidence files."""
import json, os, re, subprocess, sys, time, signal, hashlib, copy, shutil
from concurrent.futures import ThreadPoolExecutor

VERIF = os.path.dirname(os.path.dirname(os.path.abspath(__file__)))
SIM = os.path.join(VERIF, "sim")
TARGET = os.path.join(VERIF, "target")
REPLAYS = os.path.join(VERIF, "replays")
EVIDENCE = os.path.join(VERIF, "evidence")
JOURNALS = os.path.join(TARGET, "journals")
NCPU = os.cpu_count() or 4
DEFAULT_SEED = 20260927

ENV = dict(os.environ)
ENV.update({"CARGO_NET_OFFLINE": "true", "RUST_BACKTRACE": "0", "CARGO_TERM_COLOR": "never",
            # for the asan variant: our own quarantine keeps freed blocks, so LeakSanitizer is off;
            # a report ends the worker with exit code 99 (seen as a crash, replay from the journal)
            "ASAN_OPTIONS": "detect_leaks=0:exitcode=99:abort_on_error=0:allocator_may_return_null=1:print_summary=1"})


class HarnessError(Exception):
    pass


def log(*a):
    print(*a, file=sys.stderr, flush=True)


def seed_from_env():
    s = os.environ.get("VERIF_SEED")
    if s is None or s == "":
        return DEFAULT_SEED
    try:
        return int(s) & ((1 << 63) - 1)
    except ValueError:
        return int(hashlib.sha256(s.encode()).hexdigest()[:15], 16)


# ----------------------------------------------------------------------------- builds

_built = set()


SCHED = os.path.join(VERIF, "sim-sched")


def repo_path():
    """The tokio-rs/bytes tree the simulators are built from (the path in sim/seq/Cargo.toml)."""
    m = re.search(r'bytes\s*=\s*\{\s*path\s*=\s*"([^"]+)"', open(os.path.join(SIM, "seq", "Cargo.toml")).read())
    return m.group(1) if m else "/repo"


_bypass = None


def seam_bypass():
    """Atomics of core/std used by the crate *outside* its `loom` seam are invisible to E-sched: the
    scheduler cannot interleave them and the happens-before ledger misses the edges they make,
    so its race verdicts would be unsound. Returns the list of such places (normally empty)."""
    global _bypass
    if _bypass is not None:
        return _bypass
    hits = []
    src = os.path.join(repo_path(), "src")
    for root, _, files in os.walk(src):
        for fn in files:
            if not fn.endswith(".rs") or fn in ("loom.rs", "verif_sync.rs"):
                continue
            for n, line in enumerate(open(os.path.join(root, fn), errors="replace"), 1):
                code = line.split("//")[0]
                if re.search(r"\b(core|std)::sync::atomic\b", code):
                    hits.append("%s:%d" % (os.path.relpath(os.path.join(root, fn), src), n))
    _bypass = hits
    if hits:
        log("NOTE: the crate uses core/std atomics outside its loom seam (%s); the happens-before ledger of E-sched is "
            "switched off for this run (values, addresses and ownership are still checked under every schedule; data races are left to the Miri tier)" % ", ".join(hits[:5]))
    return hits


def sched_extra():
    return ["--hb", "0"] if seam_bypass() else []


def build_sched(variant="vrelease"):
    key = ("sched", variant)
    if key in _built:
        return
    t0 = time.time()
    r = subprocess.run(["cargo", "build", "--offline", "--profile", variant, "-p", "sched", "--target-dir", os.path.join(TARGET, "sched")], cwd=SCHED, env=ENV,
                       stdout=subprocess.PIPE, stderr=subprocess.STDOUT, text=True)
    if r.returncode != 0:
        sys.stderr.write(r.stdout[-6000:])
        raise HarnessError("build failed for sched/%s" % variant)
    log("[build] sched %s ok (%.1fs)" % (variant, time.time() - t0))
    _built.add(key)


def build(variant, pkgs=("seq", "buf")):
    """variant: vdebug | vrelease | nostd | xplat (the latter two are vrelease builds
    with other feature sets, in their own target dir)."""
    if tuple(pkgs) == ("sched",):
        return build_sched(variant)
    key = (variant, tuple(pkgs))
    if key in _built:
        return
    cmd = ["cargo", "build", "--offline"]
    tdir = TARGET
    env = ENV
    if variant == "asan":
        tdir = os.path.join(TARGET, "asan")
        env = dict(ENV)
        env["RUSTFLAGS"] = "-Zsanitizer=address"
        cmd = ["cargo", "+nightly", "build", "--offline", "--profile", "vrelease", "--target", "x86_64-unknown-linux-gnu", "--features", "asan"]
    elif variant == "knob":
        # hook K1: MAX_VEC_POS = 61, so the 32-bit-only promote-to-shared branch of advance_unchecked runs
        tdir = os.path.join(TARGET, "knob")
        env = dict(ENV)
        env["RUSTFLAGS"] = "--cfg tokio_rs_bytes_verif_vecpos"
        cmd += ["--profile", "vdebug"]
    elif variant in ("vdebug", "vrelease"):
        cmd += ["--profile", variant]
    elif variant == "nostd":
        tdir = os.path.join(TARGET, "nostd")
        cmd += ["--profile", "vrelease", "--no-default-features", "--features", "simalloc"]
    elif variant == "xplat":
        tdir = os.path.join(TARGET, "xplat")
        cmd += ["--profile", "vrelease", "--no-default-features", "--features", "simalloc,std,xplat"]
    elif variant == "nostd-debug":
        tdir = os.path.join(TARGET, "nostd")
        cmd += ["--profile", "vdebug", "--no-default-features", "--features", "simalloc"]
    else:
        raise HarnessError("unknown variant " + variant)
    for p in pkgs:
        cmd += ["-p", p]
    cmd += ["--target-dir", tdir]
    t0 = time.time()
    if variant == "asan":
        # --features applies per package: build them one by one
        for p in pkgs:
            r = subprocess.run([c for c in cmd if c not in pkgs and c != "-p"] + ["-p", p], cwd=os.path.join(SIM, p), env=env, stdout=subprocess.PIPE, stderr=subprocess.STDOUT, text=True)
            if r.returncode != 0:
                sys.stderr.write(r.stdout[-6000:])
                raise HarnessError("build failed for variant asan/%s" % p)
        log("[build] asan %s ok (%.1fs)" % (",".join(pkgs), time.time() - t0))
        _built.add(key)
        return
    r = subprocess.run(cmd, cwd=SIM, env=env, stdout=subprocess.PIPE, stderr=subprocess.STDOUT, text=True)
    if r.returncode != 0:
        sys.stderr.write(r.stdout[-6000:])
        raise HarnessError("build failed for variant %s" % variant)
    log("[build] %s %s ok (%.1fs)" % (variant, ",".join(pkgs), time.time() - t0))
    _built.add(key)


def binpath(variant, name):
    if name == "sched":
        return os.path.join(TARGET, "sched", variant, "sched")
    if variant in ("vdebug", "vrelease"):
        return os.path.join(TARGET, variant, name)
    if variant == "nostd":
        return os.path.join(TARGET, "nostd", "vrelease", name)
    if variant == "nostd-debug":
        return os.path.join(TARGET, "nostd", "vdebug", name)
    if variant == "xplat":
        return os.path.join(TARGET, "xplat", "vrelease", name)
    if variant == "asan":
        return os.path.join(TARGET, "asan", "x86_64-unknown-linux-gnu", "vrelease", name)
    if variant == "knob":
        return os.path.join(TARGET, "knob", "vdebug", name)
    raise HarnessError("unknown variant " + variant)


# ----------------------------------------------------------------------------- batches

def _sig_name(rc):
    if rc == 99:
        return "AddressSanitizer-report"
    if rc < 0:
        try:
            return signal.Signals(-rc).name
        except Exception:
            return "signal%d" % -rc
    return "exit%d" % rc


def read_journal(path):
    """-> (header dict, ops list, final_drop order or None)"""
    hdr, ops, order = None, [], None
    try:
        with open(path) as f:
            for k, line in enumerate(f):
                line = line.strip()
                if not line:
                    continue
                try:
                    j = json.loads(line)
                except Exception:
                    continue  # torn last line
                if k == 0 and "op" not in j:
                    hdr = j
                elif j.get("op") == "final_drops":
                    order = j.get("order")
                else:
                    ops.append(j)
    except FileNotFoundError:
        pass
    return hdr, ops, order


def run_worker(engine, variant, args, journal, timeout):
    """Run one worker process; returns (returncode, list of parsed json lines, stderr tail)."""
    cmd = [binpath(variant, engine)] + args + ["--journal", journal]
    try:
        r = subprocess.run(cmd, env=ENV, stdout=subprocess.PIPE, stderr=subprocess.PIPE, text=True, timeout=timeout)
    except subprocess.TimeoutExpired as e:
        # what the worker printed before it was stopped (one JSON line per violating run, flushed per line)
        part = e.stdout or ""
        if isinstance(part, bytes):
            part = part.decode("utf-8", "replace")
        out = []
        for line in part.splitlines():
            line = line.strip()
            if line.startswith("{") and line.endswith("}"):
                try:
                    out.append(json.loads(line))
                except Exception:
                    pass
        return ("timeout", out, "")
    out = []
    for line in r.stdout.splitlines():
        line = line.strip()
        if not line.startswith("{"):
            continue
        try:
            out.append(json.loads(line))
        except Exception:
            pass
    return (r.returncode, out, r.stderr[-2000:])


HANG_PROPS = {
    ("seq", "std"): ["C01"], ("seq", "mut"): ["C01", "C04"], ("seq", "fault"): ["C01", "C13"],
    ("buf", "laws"): ["C09"], ("buf", "typed"): ["C10", "C09"], ("buf", "adapters"): ["C12", "C09"],
    ("buf", "write"): ["C11", "C12"], ("buf", "byz"): [], ("sched", "sched"): ["C05"],
}


def run_batch(engine, variant, seed, tag, profile, runs, steps, extra_args=(), label="", timeout=None, first=0):
    """Partition runs over worker processes. A worker that dies is itself an
    observation: its journal gives the exact op prefix; the rest of its range
    is resumed by a fresh worker. Returns dict(violations=[...], summaries=[...], crashes=n)."""
    os.makedirs(JOURNALS, exist_ok=True)
    nchunks = max(1, min(NCPU * 4, runs // 200 or 1))
    if timeout is None:
        # a chunk normally takes well under a second per 1000 runs; a worker that needs
        # 100x that is stuck in a call that does not return (reported from its journal)
        per_run = {"sched": 0.003, "buf": 0.002}.get(engine, 0.0004 * max(steps, 1))
        if variant == "asan":
            per_run *= 6  # sanitizer build, poisoned red zones, quarantine
        if profile == "recycle":
            per_run = 0.05 + steps * 2e-6
        timeout = 45 + (runs // nchunks) * per_run
        if os.environ.get("VERIF_CHUNK_TIMEOUT"):
            timeout = float(os.environ["VERIF_CHUNK_TIMEOUT"])  # (testing the slow-chunk path)
    bounds = [first + (runs * k) // nchunks for k in range(nchunks + 1)]
    chunks = [(bounds[k], bounds[k + 1]) for k in range(nchunks) if bounds[k] < bounds[k + 1]]
    violations, summaries = [], []
    crashes = [0]
    alloc_aborts = [0]
    slow_chunks = [0]

    def work(ch, timeout=timeout):
        a, b = ch
        res_v, res_s = [], []
        guard = 0
        while a < b and guard < 6:
            guard += 1
            jpath = os.path.join(JOURNALS, "%s-%s-%s-%d-%d.jsonl" % (engine, variant, label or profile, tag, a))
            args = ["batch", "--seed", str(seed), "--tag", str(tag), "--from", str(a), "--to", str(b)]
            if engine != "sched":
                args += ["--profile", profile, "--steps", str(steps)]
            args += list(extra_args)
            rc, out, err = run_worker(engine, variant, args, jpath, timeout)
            got_summary = False
            for j in out:
                if j.get("type") == "violation":
                    j["variant"] = variant
                    res_v.append(j)
                elif j.get("type") == "summary":
                    res_s.append(j)
                    got_summary = True
            if rc == 0 and got_summary:
                try:
                    os.unlink(jpath)
                except OSError:
                    pass
                break
            # crashed or hung: build a violation record from the journal
            hdr, ops, order = read_journal(jpath)
            if rc == "timeout":
                if hdr is None:
                    # stopped exactly between two runs (the journal is rewritten at the start of each):
                    # nothing hangs; the chunk was slow. Repeat it with twice the limit.
                    if guard >= 5:
                        raise HarnessError("worker timeout %s %s [%d,%d) without journal" % (engine, variant, a, b))
                    slow_chunks[0] += 1
                    timeout = timeout * 2
                    res_v[:] = [v for v in res_v if not (a <= v.get("run", -1) < b)]
                    continue
                run_idx = hdr.get("run", a)
                # Was it this run that does not return, or was the whole chunk slow (a loaded machine,
                # a sanitizer build)? The one run is repeated alone with a limit of its own; only if it
                # does not finish either is it reported. Otherwise the chunk resumes after it.
                one = ["batch", "--seed", str(seed), "--tag", str(tag), "--from", str(run_idx), "--to", str(run_idx + 1)]
                if engine != "sched":
                    one += ["--profile", profile, "--steps", str(steps)]
                one += list(extra_args)
                rc1, out1, err1 = run_worker(engine, variant, one, jpath + ".one", 180 if profile != "recycle" else 600)
                if rc1 != "timeout":
                    # (violating runs the stopped worker had already reported are in res_v by now)
                    for j in out1:
                        if j.get("type") == "violation" and not any(v.get("run") == run_idx for v in res_v):
                            j["variant"] = variant
                            res_v.append(j)
                    slow_chunks[0] += 1
                    a = run_idx + 1
                    guard -= 1 if slow_chunks[0] < 400 else 0
                    timeout = timeout * 2
                    try:
                        os.unlink(jpath + ".one")
                    except OSError:
                        pass
                    continue
                crashes[0] += 1
                rec = {"type": "violation", "engine": engine, "profile": profile, "variant": variant,
                       "run": run_idx, "seed": hdr.get("seed"), "cfg": hdr.get("cfg", {}), "ops": ops, "drop_order": [],
                       "violations": [{"props": HANG_PROPS.get((engine, profile), []), "kind": "worker-hang",
                                       "detail": "the last journalled operation did not return within %.0f s (the whole chunk normally takes < 1 s)" % timeout,
                                       "step": max(0, len(ops) - 1)}]}
                for k in ("prog", "plan"):
                    if k in hdr:
                        rec[k] = hdr[k]
                res_v.append(rec)
                break  # one hang per chunk is enough; do not resume the rest of the range
            if hdr is None:
                raise HarnessError("worker %s/%s died (%s) without a journal: %s" % (engine, variant, _sig_name(rc), err))
            if rc == -signal.SIGABRT and re.search(r"memory allocation of \d+ bytes failed", err or "") and ops and ops[-1].get("band"):
                # the process ended because an allocation request was refused (SimAlloc refuses
                # requests above its cap) during an operation whose request is representable but
                # larger than any memory (generated as such, "band"): that is the platform's
                # out-of-memory behaviour, not a property violation. The run is skipped and counted.
                # Everywhere else a huge argument is out of contract and must be refused *before*
                # anything is allocated for it, so the abort stays a crash record.
                alloc_aborts[0] += 1
                a = hdr.get("run", a) + 1
                guard -= 1 if alloc_aborts[0] < 200 else 0
                continue
            crashes[0] += 1
            run_idx = hdr.get("run", a)
            rec = {"type": "violation", "engine": engine, "profile": profile, "variant": variant,
                   "run": run_idx, "seed": hdr.get("seed"), "cfg": hdr.get("cfg", {}), "ops": ops,
                   "drop_order": order or [],
                   "violations": [{"props": (["C05", "C02"] if engine == "sched" else list(dict.fromkeys((HANG_PROPS.get((engine, profile), []) if engine == "buf" else []) + crash_props(ops)))), "kind": "worker-crash:" + _sig_name(rc),
                                   "detail": "worker process died with %s while executing the last journalled operation; stderr: %s" % (_sig_name(rc), err.strip()[-300:]),
                                   "step": max(0, len(ops) - 1)}]}
            for k in ("prog", "plan", "regen"):
                if k in hdr:
                    rec[k] = hdr[k]
            res_v.append(rec)
            a = run_idx + 1
        return res_v, res_s

    with ThreadPoolExecutor(max_workers=NCPU) as ex:
        for rv, rs in ex.map(work, chunks):
            violations += rv
            summaries += rs
    violations.sort(key=lambda v: (v.get("run", 0)))
    if slow_chunks[0]:
        log("NOTE: %d worker chunk(s) exceeded their time limit without any single run hanging (slow machine); they were resumed" % slow_chunks[0])
    return {"violations": violations, "summaries": summaries, "crashes": crashes[0], "alloc_aborts": alloc_aborts[0], "slow_chunks": slow_chunks[0]}


def crash_props(ops):
    """A dead worker is a memory-safety observation (C02). If the last operation carried
    an out-of-contract (huge) argument it also contradicts C13, and C04 if it was a
    capacity request."""
    props = ["C02"]
    if ops:
        last = ops[-1]
        huge = any(isinstance(v, int) and v > (1 << 40) for k, v in last.items() if k not in ("seed", "i", "val", "alloc_seed"))
        if huge:
            props.append("C13")
            if last.get("op") in ("reserve", "try_reclaim", "resize", "put_bytes", "extend_from_slice", "m_split_off"):
                props.append("C04")
        if str(last.get("op", "")).startswith(("lie_", "byz")) or last.get("byz"):
            props.append("C17")
    return props


# ----------------------------------------------------------------------------- replay & minimise

def write_json(path, obj):
    tmp = path + ".tmp"
    with open(tmp, "w") as f:
        json.dump(obj, f, indent=1)
        f.write("\n")
    os.replace(tmp, path)


def replay_once(engine, variant, rec, scratch):
    """-> (kinds list, crashed bool, raw violations)"""
    if engine == "miri-seq":
        from . import props as P
        m = rec.get("miri", {})
        rc, out, err = P.miri_seq_run(m.get("args", []), m.get("seed", 0), pkg=m.get("pkg", "seq"))
        kinds, vs = [], []
        for line in out.splitlines():
            if line.startswith("{") and '"violation"' in line:
                try:
                    for v in json.loads(line).get("violations", []):
                        kinds.append(v["kind"])
                        vs.append(v)
                except Exception:
                    pass
        if rc != 0 and not kinds:
            cls = P.miri_classify(rc, "", err)
            if cls:
                kinds.append(cls[1])
                vs.append({"props": cls[0], "kind": cls[1], "detail": cls[2], "step": 0})
        return (kinds, False, vs)
    if engine == "miri":
        from . import props as P
        m = rec.get("miri", {})
        rc, out, err = P.miri_run(m.get("args", []), m.get("seed", 0), m.get("rate", "0.1"))
        cls = P.miri_classify(rc, out, err)
        if cls is None:
            return ([], False, [])
        return ([cls[1]], False, [{"props": cls[0], "kind": cls[1], "detail": cls[2], "step": 0}])
    write_json(scratch, rec)
    try:
        r = subprocess.run([binpath(variant, engine), "replay", scratch], env=ENV, stdout=subprocess.PIPE,
                           stderr=subprocess.PIPE, text=True, timeout=20)
    except subprocess.TimeoutExpired:
        return (["worker-hang"], True, [])
    if r.returncode not in (0, 1):
        return (["worker-crash:" + _sig_name(r.returncode)], True, [])
    viol = []
    for line in r.stdout.splitlines():
        if line.startswith("{"):
            try:
                viol = json.loads(line).get("violations", [])
            except Exception:
                pass
    return ([v["kind"] for v in viol], False, viol)


NUMERIC_SKIP = ("i", "h", "o", "src", "seed", "val", "pat", "x", "form", "mode", "w", "t", "task")


def minimise(engine, variant, rec, want_kind, budget_s=60, max_execs=1500, list_key="ops", test=None):
    """Delta-debug the op list, then shrink numeric arguments, while the same
    violation kind persists. Returns the minimised record."""
    os.makedirs(JOURNALS, exist_ok=True)
    scratch = os.path.join(JOURNALS, "min-%d-%s.json" % (os.getpid(), hashlib.md5(json.dumps(rec, sort_keys=True).encode()).hexdigest()[:8]))
    t0 = time.time()
    execs = [0]

    def fails(cand):
        if time.time() - t0 > budget_s or execs[0] >= max_execs:
            return False
        execs[0] += 1
        if test is not None:
            return test(cand)
        kinds, crashed, _ = replay_once(engine, variant, cand, scratch)
        return want_kind in kinds

    cur = copy.deepcopy(rec)
    # the original must reproduce
    if not fails(cur):
        try:
            os.unlink(scratch)
        except OSError:
            pass
        return None
    ops = cur[list_key]
    # 1. chunk deletion
    n = max(1, len(ops) // 2)
    while n >= 1:
        i = 0
        changed = False
        while i < len(ops):
            cand_ops = ops[:i] + ops[i + n:]
            cand = dict(cur)
            cand[list_key] = cand_ops
            if len(cand_ops) < len(ops) and fails(cand):
                ops = cand_ops
                cur[list_key] = ops
                changed = True
            else:
                i += n
        if n == 1 and not changed:
            break
        n = max(1, n // 2) if n > 1 else (1 if changed else 0)
        if n == 0:
            break
    # 2. numeric shrinking
    for idx in range(len(ops)):
        for k in list(ops[idx].keys()):
            v = ops[idx][k]
            if k in NUMERIC_SKIP or not isinstance(v, int) or isinstance(v, bool):
                continue
            for nv in (0, 1, 2, v // 2, v - 1):
                if nv >= v or nv < 0:
                    continue
                cand_ops = copy.deepcopy(ops)
                cand_ops[idx][k] = nv
                cand = dict(cur)
                cand[list_key] = cand_ops
                if fails(cand):
                    ops = cand_ops
                    cur[list_key] = ops
                    break
    # 2b. simplify the nest (E-buf): replace an adapter node by one of its children
    if isinstance(cur.get("plan"), dict):
        def paths(node, pre=()):
            out = []
            for k in ("a", "b", "in"):
                if isinstance(node.get(k), dict):
                    out.append(pre + (k,))
                    out += paths(node[k], pre + (k,))
            return out

        def get(node, path):
            for k in path:
                node = node[k]
            return node

        def put(root, path, val):
            if not path:
                return val
            root = copy.deepcopy(root)
            n = root
            for k in path[:-1]:
                n = n[k]
            n[path[-1]] = val
            return root

        improved = True
        while improved:
            improved = False
            for pth in sorted(paths(cur["plan"]), key=len):
                child = get(cur["plan"], pth)
                cand = dict(cur)
                cand["plan"] = put(cur["plan"], pth[:-1], child)
                if fails(cand):
                    cur = cand
                    cur[list_key] = ops
                    improved = True
                    break
        # shrink leaf sizes
        for pth in [()] + paths(cur["plan"]):
            node = get(cur["plan"], pth)
            for key in ("n", "cap", "pre", "init"):
                v = node.get(key)
                if isinstance(v, int) and v > 1 and "hex" not in node:
                    for nv in (1, 2, v // 2):
                        if nv < v:
                            nn = dict(node)
                            nn[key] = nv
                            cand = dict(cur)
                            cand["plan"] = put(cur["plan"], pth, nn)
                            if fails(cand):
                                cur = cand
                                node = nn
                                break
    # 3. simplify the environment
    cfg = cur.get("cfg", {})
    for key, simple in (("parity", "even"), ("realloc", "move")):
        if cfg.get(key) not in (None, simple):
            cand = copy.deepcopy(cur)
            cand["cfg"][key] = simple
            if fails(cand):
                cur = cand
    cur["minimiser"] = {"replays": execs[0], "seconds": round(time.time() - t0, 2), "ops_before": len(rec[list_key]), "ops_after": len(cur[list_key])}
    try:
        os.unlink(scratch)
    except OSError:
        pass
    return cur


# ----------------------------------------------------------------------------- known findings

def load_known():
    p = os.path.join(VERIF, "known_findings.json")
    try:
        with open(p) as f:
            return json.load(f).get("findings", [])
    except FileNotFoundError:
        return []


def match_known(prop, rec, viol, known):
    """A known entry matches by property + violation kind prefix + the operation (and
    optional argument predicate) of the violating step — so a different violation of the
    same property is still reported."""
    ops = rec.get("ops", [])
    step = viol.get("step", len(ops) - 1)
    op = ops[step] if 0 <= step < len(ops) else (ops[-1] if ops else {})
    for k in known:
        if k.get("status") != "known" or k.get("property") != prop:
            continue
        m = k.get("match", {})
        if "kind_prefix" in m and not viol.get("kind", "").startswith(m["kind_prefix"]):
            continue
        if "op" in m and op.get("op") not in (m["op"] if isinstance(m["op"], list) else [m["op"]]):
            continue
        if "variant" in m and rec.get("variant") not in m["variant"]:
            continue
        if "detail_contains" in m and m["detail_contains"] not in viol.get("detail", ""):
            continue
        if "arg_min" in m:
            ok = all(isinstance(op.get(a), int) and op.get(a) >= lo for a, lo in m["arg_min"].items())
            if not ok:
                continue
        return k
    return None


# ----------------------------------------------------------------------------- evidence

def write_evidence(prop, tier, seed, level, coverage, wall_s, violations, assumptions):
    os.makedirs(EVIDENCE, exist_ok=True)
    ev = {
        "property_id": prop,
        "tier": tier,
        "seed": int(seed),
        "level": level,
        "coverage": coverage,
        "assumptions": assumptions,
        "wall_s": round(float(wall_s), 3),
        "violations": int(violations),
    }
    write_json(os.path.join(EVIDENCE, prop + ".json"), ev)


def merge_summaries(summaries):
    tot = {"runs": 0, "steps": 0, "oob_steps": 0, "panics": 0, "probes": {}, "alloc": {}, "nontrivial": set(), "state_sample": set(), "samples": []}
    for s in summaries:
        tot["runs"] += s.get("runs", 0)
        tot["steps"] += s.get("steps", 0)
        tot["oob_steps"] += s.get("oob_steps", 0)
        tot["panics"] += s.get("panics", 0)
        for k, v in s.get("probes", {}).items():
            tot["probes"][k] = tot["probes"].get(k, 0) + v
        for k, v in s.get("alloc", {}).items():
            tot["alloc"][k] = tot["alloc"].get(k, 0) + v
        tot["nontrivial"].update(s.get("nontrivial", []))
        tot["state_sample"].update(s.get("state_sample", []))
        if len(tot["samples"]) < 3:
            tot["samples"] += s.get("samples", [])[: 3 - len(tot["samples"])]
        for k, v in s.items():
            if k.startswith("x_") and isinstance(v, (int, float)):
                tot[k] = tot.get(k, 0) + v
    return tot


def report_violation(prop, engine, variant, rec, viol, tier, do_min=True, list_key="ops"):
    """Minimise, write the replay file, re-run it in a fresh process; returns path."""
    os.makedirs(REPLAYS, exist_ok=True)
    want = viol["kind"]
    out = dict(rec)
    out["property"] = prop
    out["variant"] = variant
    out["engine"] = engine
    out["violation"] = viol
    m = None
    if engine in ("miri", "miri-seq"):
        # Miri exports no schedule: the replay is (program, seed, flags); confirm it in a fresh process
        kinds, _, vs = replay_once(engine, variant, rec, None)
        out["replay_confirmed_in_fresh_process"] = want in kinds
    elif do_min and engine == "sched":
        m = minimise_sched(variant, rec, want)
    elif do_min:
        m = minimise(engine, variant, rec, want, list_key=list_key)
    if m is not None:
        m["property"] = prop
        m["variant"] = variant
        m["engine"] = engine
        kinds, crashed, vs = replay_once(engine, variant, m, os.path.join(JOURNALS, "final-%d.json" % os.getpid()))
        if want in kinds:
            vv = [v for v in vs if v["kind"] == want]
            m["violation"] = vv[0] if vv else viol
            m["replay_confirmed_in_fresh_process"] = True
            out = m
    name = "%s-%s-%s-%s.json" % (prop, engine, rec.get("seed", 0), rec.get("run", 0))
    path = os.path.join(REPLAYS, name)
    out.pop("type", None)
    write_json(path, out)
    return path


# ----------------------------------------------------------------------------- E-sched minimisation

def _ddmin(items, test):
    """Generic list reduction: returns a sub-list for which test(sublist) is still True."""
    n = max(1, len(items) // 2)
    while n >= 1 and items:
        i = 0
        changed = False
        while i < len(items):
            cand = items[:i] + items[i + n:]
            if len(cand) < len(items) and test(cand):
                items = cand
                changed = True
            else:
                i += n
        if n == 1:
            if not changed:
                break
        else:
            n = max(1, n // 2)
    return items


def minimise_sched(variant, rec, want_kind, budget_s=60, max_execs=1200):
    """Schedule -> preemption directives (default: keep running the current task, else lowest
    runnable id), then delete directives, per-task operations, tasks and options while the
    same violation kind persists."""
    os.makedirs(JOURNALS, exist_ok=True)
    scratch = os.path.join(JOURNALS, "mins-%d.json" % os.getpid())
    t0 = time.time()
    execs = [0]

    def fails(cand):
        if time.time() - t0 > budget_s or execs[0] >= max_execs:
            return False
        execs[0] += 1
        kinds, crashed, _ = replay_once("sched", variant, cand, scratch)
        return want_kind in kinds

    cur = copy.deepcopy(rec)
    if "sched" not in cur or "prog" not in cur:
        return None
    if not fails(cur):
        return None
    before = {"decisions": len(cur["sched"].get("list", [])), "ops": sum(len(t.get("ops", [])) for t in cur["prog"].get("tasks", []))}
    # 1. decisions -> directives
    if "directives" in cur:
        cand = copy.deepcopy(cur)
        cand["sched"] = cur["directives"]
        if fails(cand):
            cur = cand
    # 2. drop directives
    if cur["sched"].get("mode") == "directives":
        def t_dir(lst):
            c = copy.deepcopy(cur)
            c["sched"]["list"] = lst
            return fails(c)
        cur["sched"]["list"] = _ddmin(list(cur["sched"]["list"]), t_dir)
    # 3. options
    for key, val in (("second_wave", False), ("root_first", False)):
        if cur["prog"].get(key) not in (val, None):
            c = copy.deepcopy(cur)
            c["prog"][key] = val
            if fails(c):
                cur = c
    # 4. per-task ops, main ops
    for ti in range(len(cur["prog"].get("tasks", []))):
        def t_ops(lst, ti=ti):
            c = copy.deepcopy(cur)
            c["prog"]["tasks"][ti]["ops"] = lst
            return fails(c)
        cur["prog"]["tasks"][ti]["ops"] = _ddmin(list(cur["prog"]["tasks"][ti]["ops"]), t_ops)
        def t_init(lst, ti=ti):
            c = copy.deepcopy(cur)
            c["prog"]["tasks"][ti]["init"] = lst
            return fails(c)
        cur["prog"]["tasks"][ti]["init"] = _ddmin(list(cur["prog"]["tasks"][ti].get("init", [])), t_init)
    for key in ("main_ops", "wave_ops"):
        def t_m(lst, key=key):
            c = copy.deepcopy(cur)
            c["prog"][key] = lst
            return fails(c)
        cur["prog"][key] = _ddmin(list(cur["prog"].get(key, [])), t_m)
    # 5. whole tasks (from the end, so task numbering of the others is stable)
    ti = len(cur["prog"].get("tasks", [])) - 1
    while ti >= 0:
        c = copy.deepcopy(cur)
        del c["prog"]["tasks"][ti]
        if c["prog"]["tasks"] and fails(c):
            cur = c
        ti -= 1
    # 6. directives once more on the smaller program
    if cur["sched"].get("mode") == "directives":
        def t_dir2(lst):
            c = copy.deepcopy(cur)
            c["sched"]["list"] = lst
            return fails(c)
        cur["sched"]["list"] = _ddmin(list(cur["sched"]["list"]), t_dir2)
    cur.pop("directives", None)
    cur.pop("violations", None)
    cur["minimiser"] = {"replays": execs[0], "seconds": round(time.time() - t0, 2), "before": before,
                        "after": {"schedule_entries": len(cur["sched"].get("list", [])), "mode": cur["sched"].get("mode"),
                                  "ops": sum(len(t.get("ops", [])) for t in cur["prog"].get("tasks", []))}}
    try:
        os.unlink(scratch)
    except OSError:
        pass
    return cur


def mix_py(*parts):
    """Python twin of rt::mix (for seeds the driver derives itself)."""
    M = (1 << 64) - 1
    acc = 0x243F6A8885A308D3
    for p in parts:
        x = (acc ^ ((p * 0x9E3779B97F4A7C15) & M)) & M
        x = (x + 0x9E3779B97F4A7C15) & M
        z = x
        z = ((z ^ (z >> 30)) * 0xBF58476D1CE4E5B9) & M
        z = ((z ^ (z >> 27)) * 0x94D049BB133111EB) & M
        acc = z ^ (z >> 31)
    return acc
