"""Per-property check definitions."""
import os, sys, time, json, subprocess
from . import common as C

ASSUME_SEQ = [
    "SimAlloc (the simulator's global allocator: ledger, red zones, poison+quarantine, parity placement) is correct",
    "the per-handle Vec<u8> value model in sim/seq/src/ops.rs states the documented semantics",
    "seeded search: a clean batch is evidence over the sampled histories, not a proof",
    "block classification is by address only; 'unknown' sharing (only empty neighbours) is left unconstrained",
]

REAL_VS_STUB = {
    "real": "all of /repo/src compiled from the working tree (debug-assertions+overflow-checks on, and off)",
    "stub": "global allocator = SimAlloc; from_owner owners, Buf sources and iterators are harness fakes (honest unless stated)",
}

# property -> (engine profile, seed tag, quick (runs, steps), thorough (runs, steps))
SEQ = {
    "C01": ("std", 101, (160000, 40), (4000000, 160)),
    "C02": ("std", 102, (160000, 40), (4000000, 160)),
    "C03": ("std", 103, (160000, 40), (4000000, 160)),
    "C04": ("mut", 104, (160000, 40), (4000000, 160)),
    "C07": ("std", 107, (160000, 40), (4000000, 160)),
    "C08": ("std", 108, (160000, 40), (4000000, 160)),
    "C13": ("fault", 113, (160000, 40), (4000000, 160)),
}

RULES = {
    "seq": "one case = one seeded run of the handle-world simulator (swarm configuration, <=N generated operations on "
           "Bytes/BytesMut/Vec handles, allocator parity/realloc mode, final drop permutation); distinct = distinct hash of "
           "(operation kinds, outcomes, final abstract world); non-trivial = at some step >=2 live handles pointed into one "
           "allocation block",
}


def handle_violations(prop, engine, found, tier):
    """found: list of (variant, rec). Prints KNOWN-FINDING / VIOLATION lines.
    Returns number of unknown violations."""
    known = C.load_known()
    printed_known = set()
    unknown = []
    for variant, rec in found:
        vs = [v for v in rec.get("violations", []) if prop in v.get("props", [])]
        if not vs:
            continue
        v = vs[0]
        k = C.match_known(prop, rec, v, known)
        if k is not None:
            if k["id"] not in printed_known:
                printed_known.add(k["id"])
                print("KNOWN-FINDING: property=%s %s" % (prop, k["what"]), flush=True)
            continue
        unknown.append((variant, rec, v))
    if unknown:
        # report the first (lowest run index) with a minimised replay file; list a few more unminimised
        # (a native record first when there is one: its replay is minimised in seconds, a Miri one in minutes)
        unknown.sort(key=lambda t: (t[1].get("engine") in ("miri", "miri-seq"), t[1].get("run", 0), t[0]))
        variant, rec, v = unknown[0]
        path = C.report_violation(prop, rec.get("engine", engine), variant, rec, v, tier)
        print("  kind=%s variant=%s run=%s detail=%s" % (v["kind"], variant, rec.get("run"), v["detail"][:300]), flush=True)
        print("VIOLATION property=%s replay=%s" % (prop, path), flush=True)
        kinds = {}
        for _, _, vv in unknown:
            kinds[vv["kind"]] = kinds.get(vv["kind"], 0) + 1
        print("  (%d violating runs; kinds: %s)" % (len(unknown), json.dumps(kinds)), flush=True)
    return len(unknown)


def check_seq(prop, tier, seed, scale=1.0):
    t0 = time.time()
    profile, tag, quick, thorough = SEQ[prop]
    runs, steps = quick if tier == "quick" else thorough
    runs = max(100, int(runs * scale))
    variants = ["vdebug", "vrelease"]
    if prop in ("C02", "C13"):
        # AddressSanitizer build cooperating with SimAlloc: out-of-bounds / use-after-free reads
        variants.append("asan")
    if prop in ("C01", "C03", "C04"):
        # hook K1 (MAX_VEC_POS = 61): the 32-bit-only promotion inside advance is exercised
        variants.append("knob")
    for v in variants:
        C.build(v, ("seq",))
    found, sums, crashes = [], [], 0
    per_variant = {}
    for v in variants:
        r = C.run_batch("seq", v, seed, tag + (50000 if v == "asan" else 70000 if v == "knob" else 0), profile, (runs // (2 if tier == "quick" else 8) if v == "asan" else runs // 2 if v == "knob" else runs), steps)
        found += [(v, rec) for rec in r["violations"]]
        sums += r["summaries"]
        crashes += r["crashes"]
        per_variant[v] = sum(s.get("runs", 0) for s in r["summaries"])
    miri_cov = {}
    if prop in ("C02", "C13") and not any(prop in v.get("props", []) for _, rec in found for v in rec.get("violations", [])):
        # (skipped when the native batches already reported a violation: the verdict is settled and a
        # defect that loops would cost every interpreter process its full time limit)
        mfound, miri_cov = miri_seq_tier(prop, tier, seed, scale, "fault" if prop == "C13" else "std")
        found += mfound
    sched_cov = {}
    if prop in ("C01", "C03", "C07"):
        # the same value / address / ledger oracles while tasks interleave (E-sched): a wrong view
        # returned by the loser of the promotion race, or a control block leaked on that path,
        # contradicts C01/C07/C03 as much as C05, but no single-threaded history can reach it
        C.build_sched("vrelease")
        n_ex = max(2000, int((150000 if tier == "quick" else 10000000) * scale))
        r = C.run_batch("sched", "vrelease", seed, tag + 300, "sched", n_ex, 0, extra_args=["--per-prog", "8"] + C.sched_extra())
        found += [("vrelease", rec) for rec in r["violations"]]
        st = C.merge_summaries(r["summaries"])
        sched_cov = {"executions": st["runs"], "scheduling_points": st["steps"], "preemptions": st.get("x_preemptions", 0),
                     "promotion_cas_lost": st["probes"].get("promotion_cas_lost", 0)}
    n_unknown = handle_violations(prop, "seq", found, tier)
    tot = C.merge_summaries(sums)
    wall = time.time() - t0
    cov = {
        "evaluations": tot["runs"] + miri_cov.get("executions", 0),
        "distinct_nontrivial": len(tot["nontrivial"]),
        "miri_tier": miri_cov,
        "sched_tier": sched_cov,
        "rule": RULES["seq"].replace("<=N", "<=%d" % steps),
        "samples": tot["samples"][:2] or [{"note": "no sample recorded"}],
        "steps": tot["steps"],
        "simulated_time": "%d operations (logical steps; the crate has no clock)" % tot["steps"],
        "runs_per_hour": int(tot["runs"] / max(wall, 1e-6) * 3600),
        "seeds": {"root": seed, "tag": tag, "run_indices": [0, runs], "derivation": "run seed = mix(root, tag, index)"},
        "variants": per_variant,
        "fault_counts": {
            "out_of_contract_calls_fired": tot["oob_steps"],
            "panics_caught": tot["panics"],
            "owner_as_ref_panics": tot["probes"].get("owner_as_ref_panic", 0),
            "odd_address_placements": tot["alloc"].get("odd_placements", 0),
            "even_address_placements": tot["alloc"].get("even_placements", 0),
            "realloc_moved": tot["alloc"].get("realloc_moves", 0),
            "realloc_in_place": tot["alloc"].get("realloc_inplace", 0),
            "worker_crashes": crashes,
        },
        "probes": tot["probes"],
        "distinct_states_estimate": len(tot["state_sample"]) * 64,
        "distinct_states_measure": "abstract world hash (per slot: type, length/offset/spare class, sharing class, origin, address parity); 1/64 sample, scaled",
        "real_vs_stub": REAL_VS_STUB,
    }
    C.write_evidence(prop, tier, seed, "fault_enumeration" if prop == "C13" else "exploration", cov, wall, n_unknown, ASSUME_SEQ)
    print("%s: %d runs, %d steps, %d distinct non-trivial, %.1fs, violations=%d" % (prop, tot["runs"], tot["steps"], len(tot["nontrivial"]), wall, n_unknown), flush=True)
    return 1 if n_unknown else 0


ASSUME_BUF = [
    "the flat byte-sequence model and capacity-tree model in sim/buf/src/{read,write}.rs state the documented Buf/BufMut semantics",
    "harness Buf/BufMut fakes (SegBuf, SegDefault, SegBufMut) are lawful implementations of the traits",
    "seeded search: a clean batch is evidence over the sampled nests and operation sequences, not a proof",
]
REAL_VS_STUB_BUF = {
    "real": "every Buf/BufMut implementor and adapter in /repo/src/buf, Bytes, BytesMut, compiled from the working tree (debug and release variants)",
    "stub": "leaf sources/targets SegBuf/SegDefault/SegBufMut and (byzantine mode) LyingBuf/LyingIter/LyingOwner are harness fakes; global allocator = SimAlloc",
}
RULES["buf"] = ("one case = one seeded nest (plan of depth <=4 over all leaf kinds and adapters, all chunk segmentations incl. empty chunks) "
                "plus <=N cursor/write operations with boundary-biased arguments; distinct = distinct (nest shape hash, per-step result digest); "
                "non-trivial = nest depth >= 2 or a typed value straddled a chunk boundary")

# property -> list of (profile, tag, quick (runs, steps), thorough (runs, steps))
BUF = {
    "C09": [("laws", 109, (200000, 30), (6000000, 60))],
    "C10": [("typed", 110, (240000, 12), (8000000, 30))],
    "C11": [("write", 111, (200000, 30), (6000000, 60))],
    "C12": [("adapters", 112, (120000, 30), (3000000, 60)), ("write", 212, (100000, 30), (3000000, 60))],
}


def check_buf(prop, tier, seed, scale=1.0):
    t0 = time.time()
    variants = ["vdebug", "vrelease"]
    for v in variants:
        C.build(v, ("buf",))
    found, sums, crashes = [], [], 0
    per_variant = {}
    specs = BUF[prop]
    steps_max = 0
    for (profile, tag, quick, thorough) in specs:
        runs, steps = quick if tier == "quick" else thorough
        runs = max(100, int(runs * scale))
        steps_max = max(steps_max, steps)
        for v in variants:
            r = C.run_batch("buf", v, seed, tag, profile, runs, steps)
            found += [(v, rec) for rec in r["violations"]]
            sums += r["summaries"]
            crashes += r["crashes"]
            per_variant[v + ":" + profile] = sum(s.get("runs", 0) for s in r["summaries"])
    # E-miri(buf): the same nests and operations interpreted by Miri (no SimAlloc): out-of-bounds and
    # uninitialised *reads*, invalid pointers and leaks in the Buf / BufMut implementations
    miri_cov = {"note": "skipped: the native batches already reported a violation"}
    if not any(prop in v.get("props", []) for _, rec in found for v in rec.get("violations", [])):
        mfound, miri_cov = miri_seq_tier(prop, tier, seed, scale, specs[0][0], pkg="buf")
        found += mfound
    n_unknown = handle_violations(prop, "buf", found, tier)
    tot = C.merge_summaries(sums)
    wall = time.time() - t0
    cov = {
        "evaluations": tot["runs"],
        "miri_tier": miri_cov,
        "distinct_nontrivial": len(tot["nontrivial"]),
        "rule": RULES["buf"].replace("<=N", "<=%d" % steps_max),
        "samples": tot["samples"][:2] or [{"note": "no sample recorded"}],
        "steps": tot["steps"],
        "simulated_time": "%d cursor/write operations (logical steps)" % tot["steps"],
        "runs_per_hour": int(tot["runs"] / max(wall, 1e-6) * 3600),
        "seeds": {"root": seed, "tags": [s[1] for s in specs], "derivation": "run seed = mix(root, tag, index)"},
        "variants": per_variant,
        "fault_counts": {
            "short_reads_writes": "every run: sources/targets are cut into chunks by the seed (incl. empty chunks)",
            "values_straddling_chunk_boundaries": tot.get("x_straddles", 0),
            "shortfalls_fired": tot.get("x_shortfalls", 0),
            "panics_caught": tot["panics"],
            "worker_crashes": crashes,
        },
        "probes": tot["probes"],
        "distinct_nest_shapes": len(tot["state_sample"]),
        "real_vs_stub": REAL_VS_STUB_BUF,
    }
    C.write_evidence(prop, tier, seed, "exploration", cov, wall, n_unknown, ASSUME_BUF)
    print("%s: %d runs, %d steps, %d distinct non-trivial, %.1fs, violations=%d" % (prop, tot["runs"], tot["steps"], len(tot["nontrivial"]), wall, n_unknown), flush=True)
    return 1 if n_unknown else 0


ASSUME_SCHED = [
    "shuttle executes sequentially consistent interleavings only; weak-memory outcomes are covered by the ordering-aware happens-before ledger (C++20 release-sequence rules over the orderings written in the source) and by the Miri tier",
    "the per-handle value model and the live-handle registry (register-after-create / deregister-before-drop) in sim-sched/sched/src/prog.rs",
    "SimAlloc ledger (exactly-once free, layout, poison)",
    "seeded search: a clean batch is evidence over the sampled programs and schedules, not a proof",
]
REAL_VS_STUB_SCHED = {
    "real": "all of /repo/src compiled from the working tree through the shadow manifest with --cfg tokio_rs_bytes_verif; every atomic access of the crate is a scheduling point",
    "stub": "atomics = shuttle's SC model behind the rt::atomic shim; threads = shuttle continuations; allocator = SimAlloc",
}
RULES["sched"] = ("one case = one execution of a generated concurrent program (1-2 storages in a drawn representation, 2-4 tasks x 1-6 operations, "
                  "clones through a shared &Bytes, hand-off by join) under one seeded schedule (uniform random / PCT depth 1-4 / burst); "
                  "distinct = distinct (program hash, decision-sequence hash); non-trivial = at least one preemption")

SCHED = {
    "C05": (105, (400000, 8), (40000000, 16)),
    "C06": (106, (400000, 8), (40000000, 16)),
}


def check_sched(prop, tier, seed, scale=1.0):
    t0 = time.time()
    tag, quick, thorough = SCHED[prop]
    runs, per_prog = quick if tier == "quick" else thorough
    runs = max(200, int(runs * scale))
    variants = ["vrelease"] if tier == "quick" else ["vrelease", "vdebug"]
    found, sums, crashes = [], [], 0
    per_variant = {}
    for v in variants:
        C.build_sched(v)
        # the debug build of the shuttle runtime is ~10x slower: a tenth of the executions there
        r = C.run_batch("sched", v, seed, tag + (0 if v == "vrelease" else 5000), "sched", runs if v == "vrelease" else max(1000, runs // 10), 0, extra_args=["--per-prog", str(per_prog)] + C.sched_extra())
        found += [(v, rec) for rec in r["violations"]]
        sums += r["summaries"]
        crashes += r["crashes"]
        per_variant[v] = sum(s.get("runs", 0) for s in r["summaries"])
    miri_cov = {}
    if prop == "C06" or tier == "thorough":
        mfound, miri_cov = miri_tier(prop, tier, seed, scale)
        found += mfound
    n_unknown = handle_violations(prop, "sched", found, tier)
    tot = C.merge_summaries(sums)
    wall = time.time() - t0
    cov = {
        "evaluations": tot["runs"] + miri_cov.get("executions", 0),
        "distinct_nontrivial": len(tot["nontrivial"]) + miri_cov.get("distinct", 0),
        "rule": RULES["sched"],
        "samples": tot["samples"][:2] or [{"note": "no sample recorded"}],
        "steps": tot["steps"],
        "simulated_time": "%d scheduling points" % tot["steps"],
        "runs_per_hour": int(tot["runs"] / max(wall, 1e-6) * 3600),
        "seeds": {"root": seed, "tag": tag, "derivation": "program seed = mix(root, tag, index // %d); schedule seed = mix(root, tag, index, 77)" % per_prog},
        "variants": per_variant,
        "distinct_programs": len(tot["state_sample"]),
        "fault_counts": {
            "preemptions": tot.get("x_preemptions", 0),
            "atomic_operations_scheduled": tot.get("x_atomic_ops", 0),
            "worker_crashes": crashes,
        },
        "probes": tot["probes"],
        "miri_tier": miri_cov,
        "real_vs_stub": REAL_VS_STUB_SCHED,
    }
    C.write_evidence(prop, tier, seed, "exploration", cov, wall, n_unknown, ASSUME_SCHED)
    print("%s: %d executions (+%d under Miri), %d scheduling points, %d distinct non-trivial, %.1fs, violations=%d" % (
        prop, tot["runs"], miri_cov.get("executions", 0), tot["steps"], cov["distinct_nontrivial"], wall, n_unknown), flush=True)
    return 1 if n_unknown else 0


MIRI_DIR = os.path.join(C.VERIF, "sim-miri")
MIRI_RATES = ["0.01", "0.1", "0.5"]


def miri_run(args, miri_seed, rate, timeout=300):
    """One Miri process = one seeded execution (Miri's scheduler, address allocator and
    weak-memory emulation all derive from -Zmiri-seed)."""
    env = dict(C.ENV)
    env["MIRIFLAGS"] = "-Zmiri-seed=%d -Zmiri-preemption-rate=%s -Zmiri-address-reuse-cross-thread-rate=0 -Zmiri-disable-isolation" % (miri_seed, rate)
    binname = "miriprog"
    if args and args[0] == "--bin":
        binname, args = args[1], args[2:]
    cmd = ["cargo", "+nightly", "miri", "run", "--offline", "-q", "--target-dir", os.path.join(C.TARGET, "miri"), "--bin", binname, "--"] + args
    # An execution takes seconds; the limit is minutes. A first timeout may still be the machine
    # (other jobs on all cores), so the same seeded execution is repeated once with three times
    # the limit before it is reported as "did not finish".
    for t in (timeout, timeout * 3):
        try:
            r = subprocess.run(cmd, cwd=MIRI_DIR, env=env, stdout=subprocess.PIPE, stderr=subprocess.PIPE, text=True, timeout=t)
            return (r.returncode, r.stdout, r.stderr)
        except subprocess.TimeoutExpired:
            continue
    return ("timeout", "", "")


def miri_classify(rc, out, err):
    """-> None if clean, else (props, kind, detail)"""
    if rc == 0:
        return None
    if rc == "timeout":
        return (["C05"], "miri:timeout", "execution under Miri did not finish (deadlock or livelock)")
    text = err + out
    for line in out.splitlines():
        if line.startswith("MODEL-VIOLATION"):
            props = [p for p in ("C05", "C06", "C01", "C07", "C08", "C04") if p in line.split("kind=")[0]]
            return (props or ["C05"], "miri:model:" + line.split("kind=")[1].split()[0], line[:400])
    m = None
    for line in text.splitlines():
        if "Undefined Behavior" in line or line.startswith("error:"):
            m = line.strip()
            break
    if m is None:
        m = (err.strip().splitlines() or ["exit %s" % rc])[-1]
    low = m.lower()
    if "data race" in low:
        return (["C06", "C05"], "miri:data-race", m[:400])
    if "leak" in low:
        return (["C05", "C03"], "miri:leak", m[:400])
    if "undefined behavior" in low:
        return (["C05", "C02", "C06"], "miri:undefined-behavior", m[:400])
    if "panicked" in text:
        return (["C05"], "miri:panic", m[:400])
    return (["C05"], "miri:failed", m[:400])


def miri_seq_run(args, miri_seed, timeout=400, pkg="seq"):
    env = dict(C.ENV)
    env["MIRIFLAGS"] = "-Zmiri-seed=%d -Zmiri-disable-isolation" % miri_seed
    cmd = ["cargo", "+nightly", "miri", "run", "--offline", "-q", "-p", pkg, "--no-default-features", "--features", "std",
           "--target-dir", os.path.join(C.TARGET, "miri-seq"), "--"] + args
    for t in (timeout, timeout * 3):
        try:
            r = subprocess.run(cmd, cwd=C.SIM, env=env, stdout=subprocess.PIPE, stderr=subprocess.PIPE, text=True, timeout=t)
            return (r.returncode, r.stdout, r.stderr)
        except subprocess.TimeoutExpired:
            continue
    return ("timeout", "", "")


def miri_seq_tier(prop, tier, seed, scale, profile="std", pkg="seq"):
    """E-miri(seq): the E-seq workloads with SimAlloc compiled out, interpreted by Miri — any UB on
    the executed path of the crate (out-of-bounds, use-after-free, invalid from_raw_parts, layout
    mismatch at dealloc, uninitialised reads, Stacked Borrows) and any leak is reported by Miri;
    the value model still runs. Returns (found, coverage)."""
    from concurrent.futures import ThreadPoolExecutor
    tag = 940
    per = 5
    steps = 20
    n_proc = max(16, int((16 if tier == "quick" else 640) * scale))
    # build once (first invocation compiles)
    miri_seq_run(["batch", "--seed", "1", "--from", "0", "--to", "0"], 0, pkg=pkg)
    if pkg == "buf":
        tag = 960
        n_proc = max(16, int((16 if tier == "quick" else 320) * scale))
    jobs = [(i, C.mix_py(seed, tag, i) & 0xffffffff) for i in range(n_proc)]

    def work(job):
        i, mseed = job
        args = ["batch", "--seed", str(seed), "--tag", str(tag), "--from", str(i * per), "--to", str((i + 1) * per), "--profile", profile, "--steps", str(steps)]
        return job, args, miri_seq_run(args, mseed, pkg=pkg)

    found, runs, steps_done = [], 0, 0
    with ThreadPoolExecutor(max_workers=C.NCPU) as ex:
        for (i, mseed), args, (rc, out, err) in ex.map(work, jobs):
            recs = []
            for line in out.splitlines():
                if line.startswith("{"):
                    try:
                        recs.append(json.loads(line))
                    except Exception:
                        pass
            for j in recs:
                if j.get("type") == "summary":
                    runs += j.get("runs", 0)
                    steps_done += j.get("steps", 0)
                elif j.get("type") == "violation":
                    j["engine"] = "miri-seq"
                    j["miri"] = {"args": args, "seed": mseed, "pkg": pkg}
                    found.append(("miri", j))
            if rc != 0:
                cls = miri_classify(rc, "", err)
                props, kind, detail = cls if cls else (["C02"], "miri:failed", "exit %s" % rc)
                props = ["C02", "C13"] if "undefined" in kind or "failed" in kind else (["C03"] if "leak" in kind else ["C02"])
                if pkg == "buf":
                    props = [prop, "C02"]
                found.append(("miri", {"engine": "miri-seq", "profile": profile, "run": i, "seed": mseed, "cfg": {}, "ops": [],
                                       "miri": {"args": args, "seed": mseed, "pkg": pkg},
                                       "violations": [{"props": props, "kind": kind, "detail": detail, "step": 0}]}))
    return found, {"executions": runs, "steps": steps_done, "processes": n_proc,
                   "note": "E-%s runs (<=%d steps) interpreted by Miri without SimAlloc; Miri's UB and leak detection are the oracle" % (pkg, steps)}


def miri_build():
    t0 = time.time()
    env = dict(C.ENV)
    subprocess.run(["cargo", "+nightly", "miri", "run", "--offline", "-q", "--target-dir", os.path.join(C.TARGET, "miri"), "--bin", "byz", "--", "1", "1", "0", "0"], cwd=MIRI_DIR, env=env,
                   stdout=subprocess.PIPE, stderr=subprocess.PIPE, text=True, timeout=1200)
    r = subprocess.run(["cargo", "+nightly", "miri", "run", "--offline", "-q", "--target-dir", os.path.join(C.TARGET, "miri"), "--bin", "miriprog", "--", "nothing"], cwd=MIRI_DIR, env=env,
                       stdout=subprocess.PIPE, stderr=subprocess.PIPE, text=True, timeout=1200)
    if r.returncode != 2:
        sys.stderr.write(r.stderr[-4000:])
        raise C.HarnessError("building the Miri program failed")
    C.log("[build] miri ok (%.1fs)" % (time.time() - t0))


def miri_tier(prop, tier, seed, scale):
    """Programs of E-sched on std threads under Miri: Miri's C11 race detector, stale-value
    emulation and leak check are the oracles. Returns (found, coverage)."""
    from concurrent.futures import ThreadPoolExecutor
    miri_build()
    tag = 906
    count = 2
    n_proc = int((256 if tier == "quick" else 8000) * scale)
    n_proc = max(16, n_proc)
    jobs = []
    for i in range(n_proc):
        jobs.append((i, C.mix_py(seed, tag, i) & 0xffffffff, MIRI_RATES[i % 3]))

    def work(job):
        i, mseed, rate = job
        rc, out, err = miri_run(["gen", str(seed), str(tag), str(i), "--count", str(count)], mseed, rate)
        progs = [l for l in out.splitlines() if l.startswith("PROGRAM")]
        return (job, miri_classify(rc, out, err), len(progs))

    found = []
    execs = 0
    bad = 0
    t0 = time.time()
    with ThreadPoolExecutor(max_workers=C.NCPU) as ex:
        for job, cls, nprog in ex.map(work, jobs):
            execs += max(nprog, 1)
            if cls is not None:
                bad += 1
                i, mseed, rate = job
                props, kind, detail = cls
                rec = {"engine": "miri", "profile": "miri", "run": i, "seed": mseed, "cfg": {},
                       "miri": {"args": ["gen", str(seed), str(tag), str(i), "--count", str(count)], "seed": mseed, "rate": rate},
                       "ops": [],
                       "violations": [{"props": props, "kind": kind, "detail": detail, "step": 0}]}
                found.append(("miri", rec))
    cov = {"executions": execs, "distinct": execs - 0, "processes": n_proc, "failing": bad,
           "flags": "-Zmiri-seed=<s> -Zmiri-preemption-rate={0.01,0.1,0.5} -Zmiri-address-reuse-cross-thread-rate=0",
           "wall_s": round(time.time() - t0, 1),
           "note": "each execution = (program, Miri seed); all distinct by construction (program index and seed both vary)"}
    return found, cov


# ----------------------------------------------------------------------------- C16

C16_CONFIGS_SEQ = (
    [("vdebug", par, rea) for par in ("even", "odd", "mixed") for rea in ("move", "inplace")]
    + [("vrelease", par, rea) for par in ("even", "odd", "mixed") for rea in ("move", "inplace")]
    + [("vdebug", "packed", "move"), ("vrelease", "packed", "inplace")]
    + [("nostd", "mixed", "mixed"), ("nostd-debug", "odd", "move"), ("xplat", "mixed", "mixed")]
)
C16_CONFIGS_BUF = [("vrelease", None, None), ("xplat", None, None)]


def _replay_many(engine, variant, path, parity=None, realloc=None):
    cmd = [C.binpath(variant, engine), "replay-many", path]
    if parity:
        cmd += ["--parity", parity]
    if realloc:
        cmd += ["--realloc", realloc]
    r = subprocess.run(cmd, env=C.ENV, stdout=subprocess.PIPE, stderr=subprocess.PIPE, text=True, timeout=900)
    out = {}
    for line in r.stdout.splitlines():
        if line.startswith("{"):
            try:
                j = json.loads(line)
                out[j.get("run")] = j
            except Exception:
                pass
    return r.returncode, out


def c16_digests_seq(rec, variant, parity, realloc):
    """digest list of one recorded program under one configuration (for replay/minimise)"""
    path = os.path.join(C.JOURNALS, "c16-one-%d.jsonl" % os.getpid())
    with open(path, "w") as f:
        f.write(json.dumps({k: rec[k] for k in ("run", "seed", "cfg", "ops", "drop_order") if k in rec}) + "\n")
    rc, out = _replay_many("seq", variant, path, parity, realloc)
    if rc != 0 or not out:
        return ("crash", rc)
    j = list(out.values())[0]
    return (j.get("digests", []), [v["kind"] for v in j.get("violations", [])])


def c16_differs(rec):
    a, b = rec["configs"]
    da = c16_digests_seq(rec, a["variant"], a["parity"], a["realloc"])
    db = c16_digests_seq(rec, b["variant"], b["parity"], b["realloc"])
    return da != db, da, db


def check_c16(prop, tier, seed, scale=1.0):
    from concurrent.futures import ThreadPoolExecutor
    t0 = time.time()
    runs = int((24000 if tier == "quick" else 1500000) * scale)
    steps = 40 if tier == "quick" else 120
    tag = 116
    for v in ("vdebug", "vrelease"):
        C.build(v, ("seq", "buf"))
    C.build("nostd", ("seq",))
    C.build("nostd-debug", ("seq",))
    C.build("xplat", ("seq", "buf"))
    os.makedirs(C.JOURNALS, exist_ok=True)
    nchunks = max(1, min(C.NCPU * 2, runs // 300 or 1))
    bounds = [(runs * k) // nchunks for k in range(nchunks + 1)]
    chunks = [(bounds[k], bounds[k + 1]) for k in range(nchunks) if bounds[k] < bounds[k + 1]]
    stats = {"programs": 0, "comparisons": 0, "steps": 0, "ref_violations": 0, "buf_programs": 0}
    mismatches = []
    samples = []
    distinct = set()

    def work(ch):
        a, b = ch
        res = {"programs": 0, "comparisons": 0, "steps": 0, "mism": [], "ref_viol": 0, "sample": None, "hashes": [], "buf_programs": 0}
        # --- E-seq: reference = vdebug with the run's own drawn parity/realloc mode
        for profile, ptag in (("fault", tag), ("mut", tag + 1000)):
            emit = os.path.join(C.JOURNALS, "c16-seq-%s-%d.jsonl" % (profile, a))
            jp = os.path.join(C.JOURNALS, "c16-seq-%s-%d.journal" % (profile, a))
            half_a, half_b = a // 2, b // 2
            if half_a >= half_b:
                continue
            cmd = [C.binpath("vdebug", "seq"), "batch", "--seed", str(seed), "--tag", str(ptag), "--from", str(half_a), "--to", str(half_b),
                   "--profile", profile, "--steps", str(steps), "--emit", emit, "--journal", jp, "--max-viol", "1000000"]
            r = subprocess.run(cmd, env=C.ENV, stdout=subprocess.PIPE, stderr=subprocess.PIPE, text=True, timeout=1800)
            ref = {}
            try:
                with open(emit) as f:
                    for line in f:
                        j = json.loads(line)
                        ref[j["run"]] = j
            except FileNotFoundError:
                pass
            if r.returncode != 0:
                # the reference configuration crashed: C02's business; compare what was emitted
                pass
            res["programs"] += len(ref)
            for j in ref.values():
                res["steps"] += len(j.get("ops", []))
                if j.get("violated"):
                    res["ref_viol"] += 1
                res["hashes"].append(hash(tuple(j.get("digests", []))) & 0xffffffffffff)
            if res["sample"] is None and ref:
                j0 = list(ref.values())[0]
                res["sample"] = {"run": j0["run"], "cfg": j0["cfg"], "ops": j0["ops"][:12], "digests": j0["digests"][:12]}
            for (variant, par, rea) in C16_CONFIGS_SEQ:
                rc, out = _replay_many("seq", variant, emit, par, rea)
                for run, j in ref.items():
                    o = out.get(run)
                    res["comparisons"] += 1
                    if o is None:
                        res["mism"].append((run, j, variant, par, rea, -1, "no result (process died, exit %s)" % rc, profile))
                        continue
                    da, db = j.get("digests", []), o.get("digests", [])
                    ka, kb = j.get("vkinds", []), [v["kind"] for v in o.get("violations", [])][:1]
                    if da != db or ka != kb:
                        k = 0
                        while k < min(len(da), len(db)) and da[k] == db[k]:
                            k += 1
                        what = "outcome digests differ from step %d on" % k if da != db else "same digests"
                        if ka != kb:
                            what += "; oracle verdicts differ: reference %s, other configuration %s" % (ka or "clean", kb or "clean")
                        res["mism"].append((run, j, variant, par, rea, k, what, profile))
            for pth in (emit, jp):
                try:
                    os.unlink(pth)
                except OSError:
                    pass
        # --- E-buf: typed + write programs (profile/feature dependence of getters/putters)
        for profile, ptag in (("typed", tag + 2000), ("write", tag + 3000)):
            emit = os.path.join(C.JOURNALS, "c16-buf-%s-%d.jsonl" % (profile, a))
            jp = os.path.join(C.JOURNALS, "c16-buf-%s-%d.journal" % (profile, a))
            cmd = [C.binpath("vdebug", "buf"), "batch", "--seed", str(seed), "--tag", str(ptag), "--from", str(a), "--to", str(b),
                   "--profile", profile, "--steps", "12", "--emit", emit, "--journal", jp, "--max-viol", "1000000"]
            subprocess.run(cmd, env=C.ENV, stdout=subprocess.PIPE, stderr=subprocess.PIPE, text=True, timeout=1800)
            ref = {}
            try:
                with open(emit) as f:
                    for line in f:
                        j = json.loads(line)
                        ref[j["run"]] = j
            except FileNotFoundError:
                pass
            res["buf_programs"] += len(ref)
            for (variant, _, _) in C16_CONFIGS_BUF:
                rc, out = _replay_many("buf", variant, emit)
                for run, j in ref.items():
                    o = out.get(run)
                    res["comparisons"] += 1
                    kb = [v["kind"] for v in (o or {}).get("violations", [])][:1]
                    if o is None or o.get("digest") != j.get("digest") or kb != j.get("vkinds", []):
                        what = "stream results differ" if o is not None else "no result (exit %s)" % rc
                        if o is not None and kb != j.get("vkinds", []):
                            what += "; oracle verdicts differ: reference %s, other configuration %s" % (j.get("vkinds") or "clean", kb or "clean")
                        jj = dict(j)
                        jj["engine"] = "buf"
                        res["mism"].append((run, jj, variant, None, None, 0, what, profile))
            for pth in (emit, jp):
                try:
                    os.unlink(pth)
                except OSError:
                    pass
        return res

    with ThreadPoolExecutor(max_workers=C.NCPU) as ex:
        for res in ex.map(work, chunks):
            stats["programs"] += res["programs"]
            stats["buf_programs"] += res["buf_programs"]
            stats["comparisons"] += res["comparisons"]
            stats["steps"] += res["steps"]
            stats["ref_violations"] += res["ref_viol"]
            mismatches += res["mism"]
            distinct.update(res["hashes"])
            if res["sample"] and len(samples) < 2:
                samples.append(res["sample"])
    n_unknown = 0
    known = C.load_known()
    if mismatches:
        mismatches.sort(key=lambda m: (m[0], m[2]))
        printed = set()
        unknown = []
        for m in mismatches:
            run, j, variant, par, rea, k, what, profile = m
            op = (j.get("ops") or [{}])[min(max(k, 0), max(len(j.get("ops", [])) - 1, 0))] if j.get("ops") else {}
            viol = {"props": ["C16"], "kind": "config-divergence", "detail": "%s vs reference vdebug: %s (op %s)" % (variant, what, json.dumps(op)[:120]), "step": max(k, 0)}
            rec = {"engine": j.get("engine", "seq"), "variant": variant, "ops": j.get("ops", []), "violations": [viol]}
            kf = C.match_known("C16", rec, viol, known)
            if kf is not None:
                if kf["id"] not in printed:
                    printed.add(kf["id"])
                    print("KNOWN-FINDING: property=C16 %s" % kf["what"], flush=True)
                continue
            unknown.append((m, viol))
        n_unknown = len(unknown)
        if unknown:
            (run, j, variant, par, rea, k, what, profile), viol = unknown[0]
            rec = {"engine": j.get("engine", "seq"), "c16": True, "profile": profile, "run": run, "seed": j.get("seed"), "cfg": j.get("cfg", {}),
                   "ops": j.get("ops", []), "drop_order": j.get("drop_order", []), "plan": j.get("plan"),
                   "configs": [{"variant": "vdebug", "parity": j.get("cfg", {}).get("parity"), "realloc": j.get("cfg", {}).get("realloc")},
                               {"variant": variant, "parity": par, "realloc": rea}],
                   "property": "C16", "violation": viol}
            if rec["engine"] == "seq":
                try:
                    m2 = C.minimise("seq", variant, rec, "config-divergence", test=lambda cand: c16_differs(cand)[0])
                    if m2 is not None:
                        m2["violation"] = viol
                        rec = m2
                        rec["replay_confirmed_in_fresh_process"] = c16_differs(rec)[0]
                except Exception as e:
                    C.log("minimise failed: %r" % e)
            os.makedirs(C.REPLAYS, exist_ok=True)
            path = os.path.join(C.REPLAYS, "C16-%s-%s-%s.json" % (rec["engine"], j.get("seed", 0), run))
            C.write_json(path, rec)
            print("  %s" % viol["detail"][:300], flush=True)
            print("VIOLATION property=C16 replay=%s" % path, flush=True)
            print("  (%d diverging (program, configuration) pairs)" % len(unknown), flush=True)
    wall = time.time() - t0
    cov = {
        "evaluations": stats["comparisons"],
        "distinct_nontrivial": len(distinct),
        "rule": "one case = one generated program (E-seq histories incl. out-of-contract arguments; E-buf typed reads and writes) replayed op-for-op in another "
                "configuration and compared by per-step outcome digest (operation, outcome ok/panic, returned bools, per handle len/capacity/content hash/is_unique; no addresses); "
                "distinct = distinct reference digest sequences; non-trivial = every program (each has >=1 step and is compared in >=2 configurations)",
        "samples": samples or [{"note": "no sample"}],
        "programs_seq": stats["programs"],
        "programs_buf": stats["buf_programs"],
        "steps": stats["steps"],
        "simulated_time": "%d operations per configuration" % stats["steps"],
        "configurations": {"seq": ["%s/%s/%s" % c for c in C16_CONFIGS_SEQ], "buf": [c[0] for c in C16_CONFIGS_BUF], "reference": "vdebug (debug-assertions + overflow-checks on, std), allocator mode drawn per run"},
        "runs_per_hour": int(stats["comparisons"] / max(wall, 1e-6) * 3600),
        "seeds": {"root": seed, "tags": [tag, tag + 1000, tag + 2000, tag + 3000]},
        "reference_runs_with_violation_skipped": stats["ref_violations"],
        "real_vs_stub": REAL_VS_STUB,
    }
    C.write_evidence(prop, tier, seed, "exploration", cov, wall, n_unknown, ASSUME_SEQ + ["digests contain no addresses; capacity is part of the observable result"])
    print("C16: %d seq + %d buf programs, %d comparisons, %.1fs, violations=%d" % (stats["programs"], stats["buf_programs"], stats["comparisons"], wall, n_unknown), flush=True)
    return 1 if n_unknown else 0


# ----------------------------------------------------------------------------- C17

def check_c17(prop, tier, seed, scale=1.0):
    from concurrent.futures import ThreadPoolExecutor
    t0 = time.time()
    tag = 117
    runs = max(400, int((300000 if tier == "quick" else 12000000) * scale))
    variants = ["vdebug", "vrelease", "asan"]
    found, sums, crashes = [], [], 0
    per_variant = {}
    for v in variants:
        C.build(v, ("buf",))
        r = C.run_batch("buf", v, seed, tag, "byz", runs, 1)
        found += [(v, rec) for rec in r["violations"]]
        sums += r["summaries"]
        crashes += r["crashes"]
        per_variant[v] = sum(s.get("runs", 0) for s in r["summaries"])
    # Miri subset: out-of-bounds reads, invalid frees and leaks in the crate show as UB / leak reports
    miri_build()
    per_proc = 48
    n_proc = max(16, int((32 if tier == "quick" else 1200) * scale))
    jobs = [(i, C.mix_py(seed, tag, i) & 0xffffffff) for i in range(n_proc)]

    def work(job):
        i, mseed = job
        rc, out, err = miri_run(["--bin", "byz", str(seed), str(tag), str(i * per_proc), str((i + 1) * per_proc)], mseed, "0.1", timeout=300)
        n = len([l for l in out.splitlines() if l.startswith("CASE")])
        return job, rc, out, err, n

    miri_cases = 0
    with ThreadPoolExecutor(max_workers=C.NCPU) as ex:
        for job, rc, out, err, n in ex.map(work, jobs):
            miri_cases += n
            cls = miri_classify(rc, out, err)
            if cls is not None:
                i, mseed = job
                last = [l for l in out.splitlines() if l.startswith("CASE")][-1:] or ["?"]
                rec = {"engine": "miri", "profile": "byz", "run": i, "seed": mseed, "cfg": {}, "ops": [],
                       "miri": {"args": ["--bin", "byz", str(seed), str(tag), str(i * per_proc), str((i + 1) * per_proc)], "seed": mseed, "rate": "0.1"},
                       "violations": [{"props": ["C17"], "kind": cls[1], "detail": "%s (while running %s)" % (cls[2], last[0]), "step": 0}]}
                found.append(("miri", rec))
    n_unknown = handle_violations(prop, "buf", found, tier)
    tot = C.merge_summaries(sums)
    wall = time.time() - t0
    cov = {
        "evaluations": tot["runs"] + miri_cases,
        "distinct_nontrivial": len(tot["nontrivial"]),
        "rule": "one case = (consumer entry point, fault schedule): every (consumer, lie kind, call index 1..8) cell gets runs of its own (index-stratified), plus sampled "
                "extra lies and later call indices; distinct = distinct (consumer, lies fired) digests; non-trivial = every case (a lying implementation is passed to the crate in each)",
        "samples": tot["samples"][:2] or [{"consumer": "bytesmut_put", "lies": [{"m": "remaining", "kind": "max", "call": 1}], "note": "case layout; see sim/buf/src/byz.rs gen_case"}],
        "steps": tot["steps"],
        "simulated_time": "%d consumer invocations" % tot["steps"],
        "runs_per_hour": int(tot["runs"] / max(wall, 1e-6) * 3600),
        "seeds": {"root": seed, "tag": tag},
        "variants": per_variant,
        "miri_cases": miri_cases,
        "fault_counts": {
            "lies_fired": tot["probes"].get("lies_fired", 0),
            "cases_with_fired_lie": tot["probes"].get("cases_with_fired_lie", 0),
            "worker_crashes": crashes,
            "lie_kinds": "remaining +k/-k/0/usize::MAX/>isize::MAX/panic; chunk empty/shorter/longer/other backing/panic; advance ignored/halved/panic; chunks_vectored none/garbage count/panic; "
                         "iterator size_hint 0/huge/lower>upper + panic mid-way; owner as_ref panic / different slice per call",
        },
        "consumers": "BytesMut::put, Vec::put, default put on &mut [u8] / &mut [MaybeUninit<u8>] / Limit / Chain, put(Take<L>), put(Chain<L,..>), copy_to_bytes, copy_to_slice, try_copy_to_slice, "
                     "all get_*/try_get_*, Take (chunks_vectored, copy_to_bytes, advance), Chain, Reader (read, fill_buf, consume, read_to_end), IntoIter, from_owner, io::Cursor<T> over a T whose as_ref() changes per call, extend, from_iter, &mut/Box forwarders",
        "real_vs_stub": REAL_VS_STUB_BUF,
    }
    C.write_evidence(prop, tier, seed, "fault_enumeration", cov, wall, n_unknown,
                     ASSUME_BUF + ["native runs see out-of-bounds writes, wrong frees and leaks (SimAlloc, guard frames); out-of-bounds reads are only seen by the Miri subset",
                                   "a consumer that loops forever on a liar is stopped by the liar's call budget (a hang is not a memory-safety violation)"])
    print("C17: %d native cases + %d under Miri, %d lies fired, %.1fs, violations=%d" % (tot["runs"], miri_cases, tot["probes"].get("lies_fired", 0), wall, n_unknown), flush=True)
    return 1 if n_unknown else 0


# ----------------------------------------------------------------------------- C18

def check_c18(prop, tier, seed, scale=1.0):
    t0 = time.time()
    tag = 118
    runs, limit = (4000, 100000) if tier == "quick" else (60000, 1000000)
    runs = max(100, int(runs * scale))
    variants = ["vdebug", "vrelease"]
    found, sums, crashes = [], [], 0
    per_variant = {}
    for v in variants:
        C.build(v, ("seq",))
        r = C.run_batch("seq", v, seed, tag, "recycle", runs, limit, timeout=900 if tier == "quick" else 7200)
        found += [(v, rec) for rec in r["violations"]]
        sums += r["summaries"]
        crashes += r["crashes"]
        per_variant[v] = sum(s.get("runs", 0) for s in r["summaries"])
    n_unknown = handle_violations(prop, "seq", found, tier)
    tot = C.merge_summaries(sums)
    wall = time.time() - t0
    cov = {
        "evaluations": tot["runs"],
        "distinct_nontrivial": len(tot["nontrivial"]),
        "rule": "one case = one balanced periodic refill/consume pattern (period <=16 rounds, message sizes 1..20000, leftover 0..~21000, initial capacity 0..64 KiB, "
                "consumption by split_to/split/split_off(0)/advance/truncate/copy_to_bytes with or without freeze, round trips through Bytes, unsplit of a split-off tail, retention window 0..5) run for "
                "warm-up N (adaptive) + 100*N rounds, at most %d; distinct = distinct pattern hash; non-trivial = every pattern (each runs thousands of rounds)" % limit,
        "samples": tot["samples"][:2] or [{"note": "no sample recorded"}],
        "steps": tot["steps"],
        "simulated_time": "%d rounds (refill + consume); history lengths up to %d rounds" % (tot["steps"], limit),
        "runs_per_hour": int(tot["runs"] / max(wall, 1e-6) * 3600),
        "seeds": {"root": seed, "tag": tag},
        "variants": per_variant,
        "patterns_converged": tot.get("x_converged", 0),
        "patterns_not_settled_within_limit": tot["runs"] - tot.get("x_converged", 0),
        "sole_empty_handle_reserve_probes": tot.get("x_sole_reserve_probes", 0),
        "fault_counts": {"worker_crashes": crashes, "allocator_modes": "parity even/odd/mixed x realloc move/in-place/mixed drawn per pattern"},
        "real_vs_stub": REAL_VS_STUB,
    }
    C.write_evidence(prop, tier, seed, "exploration", cov, wall, n_unknown,
                     ASSUME_SEQ + ["a correct implementation is eventually periodic on periodic input; patterns that do not settle within the round limit are only reported on a clear upward trend (4x between 1/4 and the end of the run)"])
    print("C18: %d patterns, %d rounds, %d converged, %.1fs, violations=%d" % (tot["runs"], tot["steps"], tot.get("x_converged", 0), wall, n_unknown), flush=True)
    return 1 if n_unknown else 0


CHECKS = {p: check_seq for p in SEQ}
CHECKS["C18"] = check_c18
CHECKS["C16"] = check_c16
CHECKS["C17"] = check_c17
CHECKS.update({p: check_buf for p in BUF})
CHECKS.update({p: check_sched for p in SCHED})


def setup():
    C.build("vdebug", ("seq", "buf"))
    C.build("vrelease", ("seq", "buf"))
    C.build("nostd", ("seq",))
    C.build("nostd-debug", ("seq",))
    C.build("xplat", ("seq", "buf"))
    C.build("asan", ("seq", "buf"))
    C.build("knob", ("seq",))
    C.build_sched("vrelease")
    miri_build()
    miri_seq_run(["batch", "--seed", "1", "--from", "0", "--to", "0"], 0)


def replay(prop, path):
    with open(path) as f:
        rec = json.load(f)
    if rec.get("c16") and rec.get("engine", "seq") == "seq":
        for c in rec["configs"]:
            C.build(c["variant"], ("seq",))
        differs, da, db = c16_differs(rec)
        print("  configuration A %s -> %s" % (rec["configs"][0], str(da)[:200]))
        print("  configuration B %s -> %s" % (rec["configs"][1], str(db)[:200]))
        if differs:
            print("VIOLATION property=%s replay=%s" % (prop, path))
            return 1
        print("replay did not reproduce the divergence", file=sys.stderr)
        return 2
    if rec.get("c16") and rec.get("engine") == "buf":
        res = []
        path1 = os.path.join(C.JOURNALS, "c16-buf-one-%d.jsonl" % os.getpid())
        os.makedirs(C.JOURNALS, exist_ok=True)
        with open(path1, "w") as f:
            f.write(json.dumps({k: rec[k] for k in ("run", "seed", "profile", "plan", "ops") if k in rec}) + "\n")
        for c in rec["configs"]:
            C.build(c["variant"], ("buf",))
            rc, out = _replay_many("buf", c["variant"], path1)
            j = list(out.values())[0] if out else {}
            res.append((j.get("digest"), [v["kind"] for v in j.get("violations", [])][:1]))
            print("  configuration %s -> digest %s verdict %s" % (c["variant"], res[-1][0], res[-1][1] or "clean"))
        if res[0] != res[1]:
            print("VIOLATION property=%s replay=%s" % (prop, path))
            return 1
        print("replay did not reproduce the divergence", file=sys.stderr)
        return 2
    engine = rec.get("engine", "seq")
    variant = rec.get("variant", "vdebug")
    if engine == "miri":
        miri_build()
    elif engine == "miri-seq":
        pass
    else:
        C.build(variant, (engine,))
    want = rec.get("violation", {}).get("kind")
    kinds, crashed, vs = C.replay_once(engine, variant, rec, os.path.join(C.JOURNALS, "replay-%d.json" % os.getpid()))
    for v in vs:
        print("  replayed: kind=%s step=%s %s" % (v["kind"], v.get("step"), v["detail"][:300]))
    if crashed:
        print("  replayed: %s" % kinds)
    if want is None:
        return 1 if kinds else 0
    if want in kinds:
        print("VIOLATION property=%s replay=%s" % (prop, path))
        return 1
    if kinds:
        print("replay produced a different violation (%s), expected %s" % (kinds, want), file=sys.stderr)
        return 2
    print("replay did not reproduce %s" % want, file=sys.stderr)
    return 2
