"""Per-property check definitions."""
import os, sys, time, json, subprocess
from . import common as C

ASSUME_SEQ = [
    "SimAlloc (the simulator's global allocator: ledger, red zones, poison+quarantine, parity placement) is correct",
    "the per-handle Vec<u8> value model in sim/seq/src/ops.rs states the documented semantics",
    "seeded search: a clean batch is evidence over the sampled histories, not a proof",
    "block classification is by address only; 'unknown' sharing (only empty neighbours) is left unconstrained",
]

REAL_VS_STUB = {
    "real": "all of /repo/src compiled from the working tree (debug-assertions+overflow-checks on, and off)",
    "stub": "global allocator = SimAlloc; from_owner owners, Buf sources and iterators are harness fakes (honest unless stated)",
}

# property -> (engine profile, seed tag, quick (runs, steps), thorough (runs, steps))
SEQ = {
    "C01": ("std", 101, (160000, 40), (4000000, 160)),
    "C02": ("std", 102, (160000, 40), (4000000, 160)),
    "C03": ("std", 103, (160000, 40), (4000000, 160)),
    "C04": ("mut", 104, (160000, 40), (4000000, 160)),
    "C07": ("std", 107, (160000, 40), (4000000, 160)),
    "C08": ("std", 108, (160000, 40), (4000000, 160)),
    "C13": ("fault", 113, (160000, 40), (4000000, 160)),
}

RULES = {
    "seq": "one case = one seeded run of the handle-world simulator (swarm configuration, <=N generated operations on "
           "Bytes/BytesMut/Vec handles, allocator parity/realloc mode, final drop permutation); distinct = distinct hash of "
           "(operation kinds, outcomes, final abstract world); non-trivial = at some step >=2 live handles pointed into one "
           "allocation block",
}


def handle_violations(prop, engine, found, tier):
    """found: list of (variant, rec). Prints KNOWN-FINDING / VIOLATION lines.
    Returns number of unknown violations."""
    known = C.load_known()
    printed_known = set()
    unknown = []
    for variant, rec in found:
        vs = [v for v in rec.get("violations", []) if prop in v.get("props", [])]
        if not vs:
            continue
        v = vs[0]
        k = C.match_known(prop, rec, v, known)
        if k is not None:
            if k["id"] not in printed_known:
                printed_known.add(k["id"])
                print("KNOWN-FINDING: property=%s %s" % (prop, k["what"]), flush=True)
            continue
        unknown.append((variant, rec, v))
    if unknown:
        # report the first (lowest run index) with a minimised replay file; list a few more unminimised
        unknown.sort(key=lambda t: (t[1].get("run", 0), t[0]))
        variant, rec, v = unknown[0]
        path = C.report_violation(prop, rec.get("engine", engine), variant, rec, v, tier)
        print("  kind=%s variant=%s run=%s detail=%s" % (v["kind"], variant, rec.get("run"), v["detail"][:300]), flush=True)
        print("VIOLATION property=%s replay=%s" % (prop, path), flush=True)
        kinds = {}
        for _, _, vv in unknown:
            kinds[vv["kind"]] = kinds.get(vv["kind"], 0) + 1
        print("  (%d violating runs; kinds: %s)" % (len(unknown), json.dumps(kinds)), flush=True)
    return len(unknown)


def check_seq(prop, tier, seed, scale=1.0):
    t0 = time.time()
    profile, tag, quick, thorough = SEQ[prop]
    runs, steps = quick if tier == "quick" else thorough
    runs = max(100, int(runs * scale))
    variants = ["vdebug", "vrelease"]
    for v in variants:
        C.build(v, ("seq",))
    found, sums, crashes = [], [], 0
    per_variant = {}
    for v in variants:
        r = C.run_batch("seq", v, seed, tag, profile, runs, steps)
        found += [(v, rec) for rec in r["violations"]]
        sums += r["summaries"]
        crashes += r["crashes"]
        per_variant[v] = sum(s.get("runs", 0) for s in r["summaries"])
    n_unknown = handle_violations(prop, "seq", found, tier)
    tot = C.merge_summaries(sums)
    wall = time.time() - t0
    cov = {
        "evaluations": tot["runs"],
        "distinct_nontrivial": len(tot["nontrivial"]),
        "rule": RULES["seq"].replace("<=N", "<=%d" % steps),
        "samples": tot["samples"][:2] or [{"note": "no sample recorded"}],
        "steps": tot["steps"],
        "simulated_time": "%d operations (logical steps; the crate has no clock)" % tot["steps"],
        "runs_per_hour": int(tot["runs"] / max(wall, 1e-6) * 3600),
        "seeds": {"root": seed, "tag": tag, "run_indices": [0, runs], "derivation": "run seed = mix(root, tag, index)"},
        "variants": per_variant,
        "fault_counts": {
            "out_of_contract_calls_fired": tot["oob_steps"],
            "panics_caught": tot["panics"],
            "owner_as_ref_panics": tot["probes"].get("owner_as_ref_panic", 0),
            "odd_address_placements": tot["alloc"].get("odd_placements", 0),
            "even_address_placements": tot["alloc"].get("even_placements", 0),
            "realloc_moved": tot["alloc"].get("realloc_moves", 0),
            "realloc_in_place": tot["alloc"].get("realloc_inplace", 0),
            "worker_crashes": crashes,
        },
        "probes": tot["probes"],
        "distinct_states_estimate": len(tot["state_sample"]) * 64,
        "distinct_states_measure": "abstract world hash (per slot: type, length/offset/spare class, sharing class, origin, address parity); 1/64 sample, scaled",
        "real_vs_stub": REAL_VS_STUB,
    }
    C.write_evidence(prop, tier, seed, "fault_enumeration" if prop == "C13" else "exploration", cov, wall, n_unknown, ASSUME_SEQ)
    print("%s: %d runs, %d steps, %d distinct non-trivial, %.1fs, violations=%d" % (prop, tot["runs"], tot["steps"], len(tot["nontrivial"]), wall, n_unknown), flush=True)
    return 1 if n_unknown else 0


ASSUME_BUF = [
    "the flat byte-sequence model and capacity-tree model in sim/buf/src/{read,write}.rs state the documented Buf/BufMut semantics",
    "harness Buf/BufMut fakes (SegBuf, SegDefault, SegBufMut) are lawful implementations of the traits",
    "seeded search: a clean batch is evidence over the sampled nests and operation sequences, not a proof",
]
REAL_VS_STUB_BUF = {
    "real": "every Buf/BufMut implementor and adapter in /repo/src/buf, Bytes, BytesMut, compiled from the working tree (debug and release variants)",
    "stub": "leaf sources/targets SegBuf/SegDefault/SegBufMut and (byzantine mode) LyingBuf/LyingIter/LyingOwner are harness fakes; global allocator = SimAlloc",
}
RULES["buf"] = ("one case = one seeded nest (plan of depth <=4 over all leaf kinds and adapters, all chunk segmentations incl. empty chunks) "
                "plus <=N cursor/write operations with boundary-biased arguments; distinct = distinct (nest shape hash, per-step result digest); "
                "non-trivial = nest depth >= 2 or a typed value straddled a chunk boundary")

# property -> list of (profile, tag, quick (runs, steps), thorough (runs, steps))
BUF = {
    "C09": [("laws", 109, (200000, 30), (6000000, 60))],
    "C10": [("typed", 110, (240000, 12), (8000000, 30))],
    "C11": [("write", 111, (200000, 30), (6000000, 60))],
    "C12": [("adapters", 112, (120000, 30), (3000000, 60)), ("write", 212, (100000, 30), (3000000, 60))],
}


def check_buf(prop, tier, seed, scale=1.0):
    t0 = time.time()
    variants = ["vdebug", "vrelease"]
    for v in variants:
        C.build(v, ("buf",))
    found, sums, crashes = [], [], 0
    per_variant = {}
    specs = BUF[prop]
    steps_max = 0
    for (profile, tag, quick, thorough) in specs:
        runs, steps = quick if tier == "quick" else thorough
        runs = max(100, int(runs * scale))
        steps_max = max(steps_max, steps)
        for v in variants:
            r = C.run_batch("buf", v, seed, tag, profile, runs, steps)
            found += [(v, rec) for rec in r["violations"]]
            sums += r["summaries"]
            crashes += r["crashes"]
            per_variant[v + ":" + profile] = sum(s.get("runs", 0) for s in r["summaries"])
    n_unknown = handle_violations(prop, "buf", found, tier)
    tot = C.merge_summaries(sums)
    wall = time.time() - t0
    cov = {
        "evaluations": tot["runs"],
        "distinct_nontrivial": len(tot["nontrivial"]),
        "rule": RULES["buf"].replace("<=N", "<=%d" % steps_max),
        "samples": tot["samples"][:2] or [{"note": "no sample recorded"}],
        "steps": tot["steps"],
        "simulated_time": "%d cursor/write operations (logical steps)" % tot["steps"],
        "runs_per_hour": int(tot["runs"] / max(wall, 1e-6) * 3600),
        "seeds": {"root": seed, "tags": [s[1] for s in specs], "derivation": "run seed = mix(root, tag, index)"},
        "variants": per_variant,
        "fault_counts": {
            "short_reads_writes": "every run: sources/targets are cut into chunks by the seed (incl. empty chunks)",
            "values_straddling_chunk_boundaries": tot.get("x_straddles", 0),
            "shortfalls_fired": tot.get("x_shortfalls", 0),
            "panics_caught": tot["panics"],
            "worker_crashes": crashes,
        },
        "probes": tot["probes"],
        "distinct_nest_shapes": len(tot["state_sample"]),
        "real_vs_stub": REAL_VS_STUB_BUF,
    }
    C.write_evidence(prop, tier, seed, "exploration", cov, wall, n_unknown, ASSUME_BUF)
    print("%s: %d runs, %d steps, %d distinct non-trivial, %.1fs, violations=%d" % (prop, tot["runs"], tot["steps"], len(tot["nontrivial"]), wall, n_unknown), flush=True)
    return 1 if n_unknown else 0


ASSUME_SCHED = [
    "shuttle executes sequentially consistent interleavings only; weak-memory outcomes are covered by the ordering-aware happens-before ledger (C++20 release-sequence rules over the orderings written in the source) and by the Miri tier",
    "the per-handle value model and the live-handle registry (register-after-create / deregister-before-drop) in sim-sched/sched/src/prog.rs",
    "SimAlloc ledger (exactly-once free, layout, poison)",
    "seeded search: a clean batch is evidence over the sampled programs and schedules, not a proof",
]
REAL_VS_STUB_SCHED = {
    "real": "all of /repo/src compiled from the working tree through the shadow manifest with --cfg tokio_rs_bytes_verif; every atomic access of the crate is a scheduling point",
    "stub": "atomics = shuttle's SC model behind the rt::atomic shim; threads = shuttle continuations; allocator = SimAlloc",
}
RULES["sched"] = ("one case = one execution of a generated concurrent program (1-2 storages in a drawn representation, 2-4 tasks x 1-6 operations, "
                  "clones through a shared &Bytes, hand-off by join) under one seeded schedule (uniform random / PCT depth 1-4 / burst); "
                  "distinct = distinct (program hash, decision-sequence hash); non-trivial = at least one preemption")

SCHED = {
    "C05": (105, (400000, 8), (40000000, 16)),
    "C06": (106, (400000, 8), (40000000, 16)),
}


def check_sched(prop, tier, seed, scale=1.0):
    t0 = time.time()
    tag, quick, thorough = SCHED[prop]
    runs, per_prog = quick if tier == "quick" else thorough
    runs = max(200, int(runs * scale))
    variants = ["vrelease"] if tier == "quick" else ["vrelease", "vdebug"]
    found, sums, crashes = [], [], 0
    per_variant = {}
    for v in variants:
        C.build_sched(v)
        r = C.run_batch("sched", v, seed, tag, "sched", runs, 0, extra_args=["--per-prog", str(per_prog)])
        found += [(v, rec) for rec in r["violations"]]
        sums += r["summaries"]
        crashes += r["crashes"]
        per_variant[v] = sum(s.get("runs", 0) for s in r["summaries"])
    miri_cov = {}
    if prop == "C06" or tier == "thorough":
        mfound, miri_cov = miri_tier(prop, tier, seed, scale)
        found += mfound
    n_unknown = handle_violations(prop, "sched", found, tier)
    tot = C.merge_summaries(sums)
    wall = time.time() - t0
    cov = {
        "evaluations": tot["runs"] + miri_cov.get("executions", 0),
        "distinct_nontrivial": len(tot["nontrivial"]) + miri_cov.get("distinct", 0),
        "rule": RULES["sched"],
        "samples": tot["samples"][:2] or [{"note": "no sample recorded"}],
        "steps": tot["steps"],
        "simulated_time": "%d scheduling points" % tot["steps"],
        "runs_per_hour": int(tot["runs"] / max(wall, 1e-6) * 3600),
        "seeds": {"root": seed, "tag": tag, "derivation": "program seed = mix(root, tag, index // %d); schedule seed = mix(root, tag, index, 77)" % per_prog},
        "variants": per_variant,
        "distinct_programs": len(tot["state_sample"]),
        "fault_counts": {
            "preemptions": tot.get("x_preemptions", 0),
            "atomic_operations_scheduled": tot.get("x_atomic_ops", 0),
            "worker_crashes": crashes,
        },
        "probes": tot["probes"],
        "miri_tier": miri_cov,
        "real_vs_stub": REAL_VS_STUB_SCHED,
    }
    C.write_evidence(prop, tier, seed, "exploration", cov, wall, n_unknown, ASSUME_SCHED)
    print("%s: %d executions (+%d under Miri), %d scheduling points, %d distinct non-trivial, %.1fs, violations=%d" % (
        prop, tot["runs"], miri_cov.get("executions", 0), tot["steps"], cov["distinct_nontrivial"], wall, n_unknown), flush=True)
    return 1 if n_unknown else 0


MIRI_DIR = os.path.join(C.VERIF, "sim-miri")
MIRI_RATES = ["0.01", "0.1", "0.5"]


def miri_run(args, miri_seed, rate, timeout=300):
    """One Miri process = one seeded execution (Miri's scheduler, address allocator and
    weak-memory emulation all derive from -Zmiri-seed)."""
    env = dict(C.ENV)
    env["MIRIFLAGS"] = "-Zmiri-seed=%d -Zmiri-preemption-rate=%s -Zmiri-address-reuse-cross-thread-rate=0 -Zmiri-disable-isolation" % (miri_seed, rate)
    cmd = ["cargo", "+nightly", "miri", "run", "--offline", "-q", "--"] + args
    try:
        r = subprocess.run(cmd, cwd=MIRI_DIR, env=env, stdout=subprocess.PIPE, stderr=subprocess.PIPE, text=True, timeout=timeout)
    except subprocess.TimeoutExpired:
        return ("timeout", "", "")
    return (r.returncode, r.stdout, r.stderr)


def miri_classify(rc, out, err):
    """-> None if clean, else (props, kind, detail)"""
    if rc == 0:
        return None
    if rc == "timeout":
        return (["C05"], "miri:timeout", "execution under Miri did not finish (deadlock or livelock)")
    text = err + out
    for line in out.splitlines():
        if line.startswith("MODEL-VIOLATION"):
            props = [p for p in ("C05", "C06", "C01", "C07", "C08", "C04") if p in line.split("kind=")[0]]
            return (props or ["C05"], "miri:model:" + line.split("kind=")[1].split()[0], line[:400])
    m = None
    for line in text.splitlines():
        if "Undefined Behavior" in line or line.startswith("error:"):
            m = line.strip()
            break
    if m is None:
        m = (err.strip().splitlines() or ["exit %s" % rc])[-1]
    low = m.lower()
    if "data race" in low:
        return (["C06", "C05"], "miri:data-race", m[:400])
    if "leak" in low:
        return (["C05", "C03"], "miri:leak", m[:400])
    if "undefined behavior" in low:
        return (["C05", "C02", "C06"], "miri:undefined-behavior", m[:400])
    if "panicked" in text:
        return (["C05"], "miri:panic", m[:400])
    return (["C05"], "miri:failed", m[:400])


def miri_build():
    t0 = time.time()
    env = dict(C.ENV)
    r = subprocess.run(["cargo", "+nightly", "miri", "run", "--offline", "-q", "--", "nothing"], cwd=MIRI_DIR, env=env,
                       stdout=subprocess.PIPE, stderr=subprocess.PIPE, text=True, timeout=1200)
    if r.returncode != 2:
        sys.stderr.write(r.stderr[-4000:])
        raise C.HarnessError("building the Miri program failed")
    C.log("[build] miri ok (%.1fs)" % (time.time() - t0))


def miri_tier(prop, tier, seed, scale):
    """Programs of E-sched on std threads under Miri: Miri's C11 race detector, stale-value
    emulation and leak check are the oracles. Returns (found, coverage)."""
    from concurrent.futures import ThreadPoolExecutor
    miri_build()
    tag = 906
    count = 2
    n_proc = int((256 if tier == "quick" else 8000) * scale)
    n_proc = max(16, n_proc)
    jobs = []
    for i in range(n_proc):
        jobs.append((i, C.mix_py(seed, tag, i) & 0xffffffff, MIRI_RATES[i % 3]))

    def work(job):
        i, mseed, rate = job
        rc, out, err = miri_run(["gen", str(seed), str(tag), str(i), "--count", str(count)], mseed, rate)
        progs = [l for l in out.splitlines() if l.startswith("PROGRAM")]
        return (job, miri_classify(rc, out, err), len(progs))

    found = []
    execs = 0
    bad = 0
    t0 = time.time()
    with ThreadPoolExecutor(max_workers=C.NCPU) as ex:
        for job, cls, nprog in ex.map(work, jobs):
            execs += max(nprog, 1)
            if cls is not None:
                bad += 1
                i, mseed, rate = job
                props, kind, detail = cls
                rec = {"engine": "miri", "profile": "miri", "run": i, "seed": mseed, "cfg": {},
                       "miri": {"args": ["gen", str(seed), str(tag), str(i), "--count", str(count)], "seed": mseed, "rate": rate},
                       "ops": [],
                       "violations": [{"props": props, "kind": kind, "detail": detail, "step": 0}]}
                found.append(("miri", rec))
    cov = {"executions": execs, "distinct": execs - 0, "processes": n_proc, "failing": bad,
           "flags": "-Zmiri-seed=<s> -Zmiri-preemption-rate={0.01,0.1,0.5} -Zmiri-address-reuse-cross-thread-rate=0",
           "wall_s": round(time.time() - t0, 1),
           "note": "each execution = (program, Miri seed); all distinct by construction (program index and seed both vary)"}
    return found, cov


CHECKS = {p: check_seq for p in SEQ}
CHECKS.update({p: check_buf for p in BUF})
CHECKS.update({p: check_sched for p in SCHED})


def setup():
    C.build("vdebug", ("seq", "buf"))
    C.build("vrelease", ("seq", "buf"))


def replay(prop, path):
    with open(path) as f:
        rec = json.load(f)
    engine = rec.get("engine", "seq")
    variant = rec.get("variant", "vdebug")
    if engine == "miri":
        miri_build()
    else:
        C.build(variant, (engine,))
    want = rec.get("violation", {}).get("kind")
    kinds, crashed, vs = C.replay_once(engine, variant, rec, os.path.join(C.JOURNALS, "replay-%d.json" % os.getpid()))
    for v in vs:
        print("  replayed: kind=%s step=%s %s" % (v["kind"], v.get("step"), v["detail"][:300]))
    if crashed:
        print("  replayed: %s" % kinds)
    if want is None:
        return 1 if kinds else 0
    if want in kinds:
        print("VIOLATION property=%s replay=%s" % (prop, path))
        return 1
    if kinds:
        print("replay produced a different violation (%s), expected %s" % (kinds, want), file=sys.stderr)
        return 2
    print("replay did not reproduce %s" % want, file=sys.stderr)
    return 2
