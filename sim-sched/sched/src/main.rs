//! E-sched: seeded schedule search on the crate's real atomics (DESIGN §2.4).
//!
//!   sched batch --seed S --tag T --from A --to B [--per-prog K] [--journal F]
//!   sched replay FILE
//!
//! The crate is compiled through the shadow manifest with `--cfg tokio_rs_bytes_verif`,
//! so every atomic access in bytes.rs / bytes_mut.rs is a point where the scheduler
//! below decides which task continues.

#[global_allocator]
static GLOBAL: rt::alloc::SimAlloc = rt::alloc::SimAlloc;

mod plat;
mod prog;

use std::collections::{BTreeMap, HashSet};
use std::io::Write as _;
use std::panic::{catch_unwind, AssertUnwindSafe};
use std::sync::{Arc, Mutex};

use rt::alloc::{self, AllocCfg};
use rt::journal::Journal;
use rt::{mix, Fnv, Rng, Violation, J};
use shuttle::scheduler::{Schedule, Scheduler, Task, TaskId};

fn arg(args: &[String], k: &str) -> Option<String> {
    args.iter().position(|a| a == k).and_then(|i| args.get(i + 1).cloned())
}

#[derive(Clone, Debug)]
enum Strategy {
    Random,
    Pct { depth: usize, horizon: usize },
    Burst { stay_pm: u32 },
    Decisions(Vec<usize>),
    Directives(Vec<(usize, usize)>),
}

#[derive(Default)]
struct SchedOut {
    decisions: Vec<usize>,
    preemptions: u64,
    diverged: bool,
    /// (step, task) where the recorded choice differs from the default policy
    directives: Vec<(usize, usize)>,
}

struct Sim {
    rng: Rng,
    strategy: Strategy,
    started: bool,
    step: usize,
    prio: Vec<u64>,
    change_points: Vec<usize>,
    out: Arc<Mutex<SchedOut>>,
}

fn default_choice(runnable: &[usize], current: Option<usize>) -> usize {
    match current {
        Some(c) if runnable.contains(&c) => c,
        _ => *runnable.iter().min().unwrap(),
    }
}

impl Scheduler for Sim {
    fn new_execution(&mut self) -> Option<Schedule> {
        if self.started {
            None
        } else {
            self.started = true;
            Some(Schedule::new(0))
        }
    }

    fn next_task(&mut self, runnable_tasks: &[&Task], current_task: Option<TaskId>, _is_yielding: bool) -> Option<TaskId> {
        let saved = alloc::set_track(false);
        let runnable: Vec<usize> = runnable_tasks.iter().map(|t| usize::from(t.id())).collect();
        let current = current_task.map(usize::from);
        let k = self.step;
        self.step += 1;
        let choice = if runnable.len() == 1 {
            runnable[0]
        } else {
            match &self.strategy {
                Strategy::Random => *self.rng.pick(&runnable),
                Strategy::Burst { stay_pm } => match current {
                    Some(c) if runnable.contains(&c) && self.rng.chance(*stay_pm, 1000) => c,
                    _ => *self.rng.pick(&runnable),
                },
                Strategy::Pct { .. } => {
                    let maxid = *runnable.iter().max().unwrap();
                    while self.prio.len() <= maxid {
                        let p = 1000 + (self.rng.next_u64() % 1_000_000);
                        self.prio.push(p);
                    }
                    if self.change_points.contains(&k) {
                        if let Some(c) = current {
                            if c < self.prio.len() {
                                // drop the running task below everyone else
                                self.prio[c] = (self.change_points.len() - self.change_points.iter().position(|x| *x == k).unwrap()) as u64;
                            }
                        }
                    }
                    *runnable.iter().max_by_key(|t| self.prio[**t]).unwrap()
                }
                Strategy::Decisions(list) => match list.get(k) {
                    Some(t) if runnable.contains(t) => *t,
                    Some(_) => {
                        self.out.lock().unwrap().diverged = true;
                        default_choice(&runnable, current)
                    }
                    None => default_choice(&runnable, current),
                },
                Strategy::Directives(list) => match list.iter().find(|d| d.0 == k) {
                    Some((_, t)) if runnable.contains(t) => *t,
                    _ => default_choice(&runnable, current),
                },
            }
        };
        {
            let mut o = self.out.lock().unwrap();
            o.decisions.push(choice);
            if let Some(c) = current {
                if c != choice && runnable.contains(&c) {
                    o.preemptions += 1;
                }
            }
            if runnable.len() > 1 && choice != default_choice(&runnable, current) {
                o.directives.push((k, choice));
            }
        }
        rt::atomic::set_current(choice);
        alloc::set_track(saved);
        Some(TaskId::from(choice))
    }

    fn next_u64(&mut self) -> u64 {
        self.rng.next_u64()
    }
}

static ALLOC_YIELD: std::sync::atomic::AtomicBool = std::sync::atomic::AtomicBool::new(false);

/// Tracked (= crate-made) allocations are scheduling points in half of the executions: the
/// window between e.g. a reference-count decrement and the copy that follows contains no
/// atomic access, but it does contain an allocator call.
fn alloc_yield() {
    if ALLOC_YIELD.load(std::sync::atomic::Ordering::Relaxed) {
        let saved = alloc::set_track(false);
        shuttle::thread::yield_now();
        alloc::set_track(saved);
    }
}

fn draw_strategy(rng: &mut Rng) -> Strategy {
    match rng.below(10) {
        0..=3 => Strategy::Random,
        4..=6 => {
            let depth = rng.range(1, 4);
            Strategy::Pct { depth, horizon: *rng.pick(&[20usize, 40, 80]) }
        }
        _ => Strategy::Burst { stay_pm: *rng.pick(&[500u32, 800, 900, 950]) },
    }
}

struct ExecResult {
    viol: Vec<Violation>,
    out: SchedOut,
    probes: BTreeMap<&'static str, u64>,
    atomic_ops: u64,
    trace_hash: u64,
}

fn acfg_from(p: &J) -> AllocCfg {
    let mut r = Rng::new(p.u64("drop_seed") ^ 0xa110c);
    AllocCfg {
        parity: *r.pick(&[alloc::Parity::Even, alloc::Parity::Odd, alloc::Parity::Mixed]),
        realloc: *r.pick(&[alloc::ReallocMode::Move, alloc::ReallocMode::InPlace, alloc::ReallocMode::Mixed]),
        seed: p.u64("drop_seed"),
        quarantine_cap: 64 << 20,
    }
}

fn execute(program: &J, strategy: Strategy, sched_seed: u64, hb: bool, alloc_yield_on: bool) -> ExecResult {
    alloc::begin_run(acfg_from(program));
    alloc::set_record_events(false);
    alloc::set_dealloc_observer(Some(rt::atomic::on_dealloc));
    alloc::set_alloc_observer(Some(rt::atomic::on_alloc));
    ALLOC_YIELD.store(alloc_yield_on, std::sync::atomic::Ordering::Relaxed);
    alloc::set_alloc_hook(Some(alloc_yield));
    rt::atomic::begin_execution(hb);
    prog::VIOLATIONS.lock().unwrap().clear();
    prog::PROBES.lock().unwrap().clear();
    prog::REGISTRY.lock().unwrap().clear();
    let out = Arc::new(Mutex::new(SchedOut::default()));
    let mut rng = Rng::new(sched_seed);
    let mut sim = Sim { rng: rng.split(1), strategy: strategy.clone(), started: false, step: 0, prio: Vec::new(), change_points: Vec::new(), out: out.clone() };
    if let Strategy::Pct { depth, horizon } = strategy {
        for _ in 1..depth {
            sim.change_points.push(rng.range(1, horizon));
        }
    }
    let mut cfg = shuttle::Config::new();
    cfg.stack_size = 1 << 18;
    cfg.failure_persistence = shuttle::FailurePersistence::None;
    cfg.silence_warnings = true;
    cfg.max_steps = shuttle::MaxSteps::FailAfter(200_000);
    let p2 = program.clone();
    let r = catch_unwind(AssertUnwindSafe(|| {
        let runner = shuttle::Runner::new(sim, cfg);
        runner.run(move || {
            alloc::set_track(false);
            prog::run_program(&p2);
            alloc::set_track(false);
        });
    }));
    alloc::set_track(false);
    rt::silence_panics(); // shuttle installs its own hook
    let mut viol: Vec<Violation> = Vec::new();
    if let Err(p) = r {
        let m = rt::panic_message(&*p);
        viol.push(Violation { props: vec!["C05"], kind: "panic-in-execution".into(), detail: format!("a task panicked: {}", m.lines().next().unwrap_or("")), step: 0 });
    }
    for (props, kind, detail) in prog::VIOLATIONS.lock().unwrap().drain(..) {
        viol.push(Violation { props, kind, detail, step: 0 });
    }
    alloc::verify(true);
    for m in alloc::take_violations() {
        let props: Vec<&'static str> = if m.starts_with("double free") { vec!["C05", "C03", "C02"] } else { vec!["C05", "C02"] };
        viol.push(Violation { props, kind: format!("alloc:{}", m.split(':').next().unwrap_or("")), detail: m, step: 0 });
    }
    for m in rt::atomic::take_races() {
        // a data race is undefined behaviour under C11, so C05 ("all outcomes the memory model allows") cannot hold either
        viol.push(Violation { props: vec!["C06", "C05"], kind: "unordered-conflicting-access".into(), detail: m, step: 0 });
    }
    if viol.is_empty() {
        let live = alloc::live_blocks();
        if !live.is_empty() {
            viol.push(Violation {
                props: vec!["C05", "C03"],
                kind: "storage-not-freed".into(),
                detail: format!("{} block(s) still allocated after every handle was dropped (first: size {}, align {})", live.len(), live[0].size, live[0].align),
                step: 0,
            });
        }
    }
    alloc::set_dealloc_observer(None);
    alloc::set_alloc_observer(None);
    alloc::set_alloc_hook(None);
    ALLOC_YIELD.store(false, std::sync::atomic::Ordering::Relaxed);
    let mut probes: BTreeMap<&'static str, u64> = rt::atomic::take_probes();
    for (k, v) in prog::PROBES.lock().unwrap().drain(..) {
        *probes.entry(k).or_insert(0) += v;
    }
    let so = std::mem::take(&mut *out.lock().unwrap());
    let mut f = Fnv::default();
    for d in &so.decisions {
        f.u64(*d as u64);
    }
    ExecResult { viol, probes, atomic_ops: rt::atomic::atomic_ops(), trace_hash: f.0, out: so }
}

fn strategy_json(s: &Strategy) -> J {
    match s {
        Strategy::Random => J::obj().set("mode", "random"),
        Strategy::Pct { depth, horizon } => J::obj().set("mode", "pct").set("depth", *depth).set("horizon", *horizon),
        Strategy::Burst { stay_pm } => J::obj().set("mode", "burst").set("stay_pm", *stay_pm),
        Strategy::Decisions(l) => J::obj().set("mode", "decisions").set("list", J::Arr(l.iter().map(|x| J::from(*x)).collect())),
        Strategy::Directives(l) => J::obj().set("mode", "directives").set("list", J::Arr(l.iter().map(|d| J::Arr(vec![J::from(d.0), J::from(d.1)])).collect())),
    }
}

fn main() {
    std::env::set_var("RUST_BACKTRACE", "0");
    rt::silence_panics();
    let args: Vec<String> = std::env::args().collect();
    let mode = args.get(1).map(|s| s.as_str()).unwrap_or("");
    let out = std::io::stdout();
    match mode {
        "batch" => {
            let seed: u64 = arg(&args, "--seed").and_then(|s| s.parse().ok()).unwrap_or(1);
            let tag: u64 = arg(&args, "--tag").and_then(|s| s.parse().ok()).unwrap_or(0);
            let from: u64 = arg(&args, "--from").and_then(|s| s.parse().ok()).unwrap_or(0);
            let to: u64 = arg(&args, "--to").and_then(|s| s.parse().ok()).unwrap_or(1);
            let per_prog: u64 = arg(&args, "--per-prog").and_then(|s| s.parse().ok()).unwrap_or(8);
            let max_viol: usize = arg(&args, "--max-viol").and_then(|s| s.parse().ok()).unwrap_or(5);
            let hb = arg(&args, "--hb").map(|s| s != "0").unwrap_or(true);
            let mut journal = match arg(&args, "--journal") {
                Some(p) => Journal::open(&p),
                None => Journal::none(),
            };
            let mut emit = arg(&args, "--emit").map(|p| std::fs::File::create(p).expect("emit file"));
            let mut probes: BTreeMap<&'static str, u64> = BTreeMap::new();
            let mut nontrivial: HashSet<u64> = HashSet::new();
            let mut progs: HashSet<u64> = HashSet::new();
            let (mut steps, mut preempt, mut atomics, mut viol_runs) = (0u64, 0u64, 0u64, 0usize);
            let mut samples: Vec<J> = Vec::new();
            let mut executed = 0u64;
            for i in from..to {
                executed += 1;
                let prog_seed = mix(&[seed, tag, i / per_prog]);
                let sched_seed = mix(&[seed, tag, i, 77]);
                let program = prog::gen_program(&mut Rng::new(prog_seed));
                let strategy = draw_strategy(&mut Rng::new(sched_seed ^ 0x57a7));
                journal.reset(&J::obj().set("run", i).set("seed", sched_seed).set("profile", "sched").set("cfg", J::obj()).set("prog", program.clone()).set("regen", J::obj().set("seed", seed).set("tag", tag).set("index", i).set("per_prog", per_prog)).dump());
                let ay = sched_seed & 1 == 0;
                let r = execute(&program, strategy.clone(), sched_seed, hb, ay);
                steps += r.out.decisions.len() as u64;
                preempt += r.out.preemptions;
                atomics += r.atomic_ops;
                for (k, v) in &r.probes {
                    *probes.entry(k).or_insert(0) += v;
                }
                let ph = rt::fnv(program.dump().as_bytes());
                progs.insert(ph);
                if let Some(f) = emit.as_mut() {
                    // determinism proof: program hash, full decision sequence hash, verdict
                    let _ = writeln!(f, "{}", J::obj().set("run", i).set("prog", ph).set("trace", r.trace_hash).set("steps", r.out.decisions.len()).set("atomics", r.atomic_ops).set("viol", r.viol.len()).dump());
                }
                if r.out.preemptions > 0 {
                    nontrivial.insert(mix(&[ph, r.trace_hash]));
                }
                if samples.len() < 2 && r.out.preemptions > 1 && r.viol.is_empty() {
                    samples.push(J::obj().set("run", i).set("prog", program.clone()).set("strategy", strategy_json(&strategy)).set("decisions", J::Arr(r.out.decisions.iter().map(|x| J::from(*x)).collect())));
                }
                if !r.viol.is_empty() {
                    viol_runs += 1;
                    let rec = J::obj()
                        .set("type", "violation")
                        .set("engine", "sched")
                        .set("profile", "sched")
                        .set("run", i)
                        .set("seed", sched_seed)
                        .set("cfg", J::obj())
                        .set("prog", program.clone())
                        .set("strategy", strategy_json(&strategy))
                        .set("sched", strategy_json(&Strategy::Decisions(r.out.decisions.clone())))
                        .set("directives", strategy_json(&Strategy::Directives(r.out.directives.clone())))
                        .set("hb", hb)
                        .set("alloc_yield", ay)
                        .set("ops", J::Arr(vec![]))
                        .set("violations", J::Arr(r.viol.iter().map(|v| v.to_json()).collect()));
                    let _ = writeln!(out.lock(), "{}", rec.dump());
                    if viol_runs >= max_viol {
                        break;
                    }
                }
            }
            let mut pj = J::obj();
            for (k, v) in &probes {
                pj.put(k, *v);
            }
            let sum = J::obj()
                .set("type", "summary")
                .set("runs", executed)
                .set("steps", steps)
                .set("viol_runs", viol_runs)
                .set("oob_steps", preempt)
                .set("panics", 0u64)
                .set("x_preemptions", preempt)
                .set("x_atomic_ops", atomics)
                .set("probes", pj)
                .set("alloc", J::obj())
                .set("nontrivial", J::Arr(nontrivial.iter().map(|x| J::from(*x)).collect()))
                .set("state_sample", J::Arr(progs.iter().map(|x| J::from(*x)).collect()))
                .set("samples", J::Arr(samples));
            let _ = writeln!(out.lock(), "{}", sum.dump());
        }
        "replay" => {
            let path = args.get(2).expect("replay FILE");
            let txt = std::fs::read_to_string(path).expect("read replay file");
            let rec = J::parse(&txt).expect("parse replay file");
            let (program, strategy, sched_seed) = if rec.get("prog").is_some() && rec.get("sched").is_some() {
                let sj = rec.get("sched").unwrap();
                let st = match sj.str("mode") {
                    Some("directives") => Strategy::Directives(sj.arr("list").iter().map(|d| (d.as_arr()[0].as_int() as usize, d.as_arr()[1].as_int() as usize)).collect()),
                    _ => Strategy::Decisions(sj.arr("list").iter().map(|x| x.as_int() as usize).collect()),
                };
                (rec.get("prog").cloned().unwrap(), st, rec.u64("seed"))
            } else {
                // crash record: regenerate program and schedule from the seed
                let g = rec.get("regen").cloned().unwrap_or(J::obj());
                let (seed, tag, i, pp) = (g.u64("seed"), g.u64("tag"), g.u64("index"), g.u64("per_prog").max(1));
                let program = prog::gen_program(&mut Rng::new(mix(&[seed, tag, i / pp])));
                let sched_seed = mix(&[seed, tag, i, 77]);
                (program, draw_strategy(&mut Rng::new(sched_seed ^ 0x57a7)), sched_seed)
            };
            let hb = rec.get("hb").map(|_| rec.boolean("hb")).unwrap_or(true);
            let ay = rec.get("alloc_yield").map(|_| rec.boolean("alloc_yield")).unwrap_or(sched_seed & 1 == 0);
            let r = execute(&program, strategy, sched_seed, hb, ay);
            let o = J::obj()
                .set("type", "replay")
                .set("steps", r.out.decisions.len())
                .set("diverged", r.out.diverged)
                .set("decisions", J::Arr(r.out.decisions.iter().map(|x| J::from(*x)).collect()))
                .set("directives", strategy_json(&Strategy::Directives(r.out.directives.clone())))
                .set("violations", J::Arr(r.viol.iter().map(|v| v.to_json()).collect()));
            let _ = writeln!(out.lock(), "{}", o.dump());
            std::process::exit(if r.viol.is_empty() { 0 } else { 1 });
        }
        _ => {
            eprintln!("usage: sched batch|replay ...");
            std::process::exit(2);
        }
    }
}
