//! Concurrent programs over bytes handles — shared by E-sched (shuttle) and E-miri
//! (std threads under Miri). A program is a JSON value, so it is an exact replay
//! artefact; the platform module `plat` supplies spawn/join, ghost accesses and
//! (natively) the allocator ledger.
//!
//! Shape: main builds 1–2 storages, derives the initial handles of every task,
//! spawns the tasks (which may also clone through a shared `&Bytes` that main keeps
//! alive until after the joins — the only cross-task edges are spawn/join and the
//! crate's own atomics), runs its own operations, joins, optionally runs a second
//! wave on the handles the tasks returned (migration), then drops everything.

use std::sync::Mutex;

use bytes::{Buf, BufMut, Bytes, BytesMut};
use rt::{Rng, J};

use crate::plat;

pub static VIOLATIONS: Mutex<Vec<(Vec<&'static str>, String, String)>> = Mutex::new(Vec::new());
pub static PROBES: Mutex<Vec<(&'static str, u64)>> = Mutex::new(Vec::new());

pub fn viol(props: &[&'static str], kind: &str, detail: String) {
    plat::untracked(|| {
        VIOLATIONS.lock().unwrap().push((props.to_vec(), kind.to_string(), detail));
    })
}
pub fn probe(k: &'static str) {
    if !plat::BOOKKEEPING {
        return;
    }
    plat::untracked(|| {
        let mut p = PROBES.lock().unwrap();
        for e in p.iter_mut() {
            if e.0 == k {
                e.1 += 1;
                return;
            }
        }
        p.push((k, 1));
    })
}

// ------------------------------------------------------------------ registry of live handles

#[derive(Clone, Copy, Debug)]
pub struct RegEntry {
    pub id: u64,
    pub storage: usize,
    pub ptr: usize,
    pub extent: usize, // len for Bytes, capacity for BytesMut/Vec
    pub task: usize,
    /// the owning task is inside a call that may give the storage up half-way (a growing
    /// reserve / extend / unsplit releases its reference before the call returns): the entry
    /// says nothing until the call is over and `refresh` has run
    pub busy: bool,
}
pub static REGISTRY: Mutex<Vec<RegEntry>> = Mutex::new(Vec::new());
static NEXT_ID: Mutex<u64> = Mutex::new(1);

fn reg_add(storage: usize, ptr: usize, extent: usize, task: usize) -> u64 {
    if !plat::BOOKKEEPING {
        return 0;
    }
    plat::untracked(|| {
        let mut n = NEXT_ID.lock().unwrap();
        let id = *n;
        *n += 1;
        REGISTRY.lock().unwrap().push(RegEntry { id, storage, ptr, extent, task, busy: false });
        id
    })
}
fn reg_del(id: u64) {
    if !plat::BOOKKEEPING {
        return;
    }
    plat::untracked(|| {
        REGISTRY.lock().unwrap().retain(|e| e.id != id);
    })
}
fn reg_update(id: u64, ptr: usize, extent: usize) {
    if !plat::BOOKKEEPING {
        return;
    }
    plat::untracked(|| {
        for e in REGISTRY.lock().unwrap().iter_mut() {
            if e.id == id {
                e.ptr = ptr;
                e.extent = extent;
                e.busy = false;
            }
        }
    })
}
fn reg_busy(id: u64) {
    if !plat::BOOKKEEPING {
        return;
    }
    plat::untracked(|| {
        for e in REGISTRY.lock().unwrap().iter_mut() {
            if e.id == id {
                e.busy = true;
            }
        }
    })
}
fn reg_others_on(storage: &StorageInfo, except: u64) -> Vec<RegEntry> {
    if !plat::BOOKKEEPING {
        return Vec::new();
    }
    plat::untracked(|| REGISTRY.lock().unwrap().iter().filter(|e| e.id != except && !e.busy && e.extent > 0 && e.ptr >= storage.base && e.ptr < storage.base + storage.size && storage.size > 0).copied().collect())
}

// ------------------------------------------------------------------ storages and handles

#[derive(Clone, Copy, Debug)]
pub struct StorageInfo {
    pub idx: usize,
    /// address range of the byte buffer the crate manages (0/0 for static / owner-inline)
    pub base: usize,
    pub size: usize,
    /// crate-allocated (can ever be uniquely owned)
    pub heap: bool,
}

pub enum Real {
    B(Bytes),
    M(BytesMut),
    V(Vec<u8>),
}

pub struct H {
    pub real: Option<Real>,
    pub model: Vec<u8>,
    pub storage: usize,
    /// expected address while the handle has only been through non-copying operations
    pub exp_ptr: Option<usize>,
    pub reg: u64,
    /// the handle lives in a private copy made by a conversion, no longer in the storage
    pub private: bool,
}

fn view(r: &Real) -> (usize, usize, usize) {
    match r {
        Real::B(b) => (b.as_ptr() as usize, b.len(), b.len()),
        Real::M(m) => (m.as_ptr() as usize, m.len(), m.capacity()),
        Real::V(v) => (v.as_ptr() as usize, v.len(), v.capacity()),
    }
}

impl H {
    fn new(real: Real, model: Vec<u8>, storage: usize, exp_ptr: Option<usize>, task: usize) -> H {
        let (p, _l, c) = view(&real);
        let reg = reg_add(storage, p, c, task);
        H { real: Some(real), model, storage, exp_ptr, reg, private: false }
    }
    fn refresh(&mut self) {
        if let Some(r) = &self.real {
            let (p, _l, c) = view(r);
            reg_update(self.reg, p, c);
        }
    }
    /// deregister-before-drop discipline
    fn take(&mut self) -> Option<Real> {
        reg_del(self.reg);
        self.real.take()
    }
}

pub struct OwnerBuf {
    pub data: Vec<u8>,
}
impl AsRef<[u8]> for OwnerBuf {
    fn as_ref(&self) -> &[u8] {
        &self.data
    }
}
impl Drop for OwnerBuf {
    fn drop(&mut self) {
        // the owner's memory goes away now: every reader must happen-before this
        plat::note_access(self.data.as_ptr() as usize, self.data.len(), true, "drop of the from_owner owner");
        probe("owner_dropped");
    }
}

static STATIC_BYTES: [u8; 64] = *b"0123456789abcdefghijklmnopqrstuvwxyzABCDEFGHIJKLMNOPQRSTUVWXYZ+/";

pub const REPRS: &[&str] = &["vec_exact", "vec_exact_adv", "vec_spare", "bm_frozen", "bm_split_frozen", "bm_off_frozen", "owner", "static", "bm_halves", "owner_inline"];

/// An owner without drop glue whose bytes live inside the crate's own control block: the
/// deallocation of that block is the only event the readers have to happen-before.
pub struct InlineOwner(pub [u8; 48], pub usize);
impl AsRef<[u8]> for InlineOwner {
    fn as_ref(&self) -> &[u8] {
        &self.0[..self.1]
    }
}

pub const TASK_OPS: &[&str] = &[
    "clone_shared", "clone", "read", "slice", "split_off", "split_to", "truncate", "advance", "drop", "try_into_mut", "into_mut", "into_vec",
    "reserve", "try_reclaim", "extend", "unsplit", "freeze", "write", "is_unique", "m_split_off", "is_unique_shared",
];

// ------------------------------------------------------------------ generation

fn gen_ops(rng: &mut Rng, n: usize, family: &str) -> J {
    let mut v = Vec::new();
    for _ in 0..n {
        let w: &[u32] = match family {
            "promotion" => &[12, 3, 6, 2, 1, 1, 1, 1, 4, 1, 1, 1, 0, 0, 0, 0, 0, 0, 2, 0, 6],
            "lastref" => &[2, 3, 8, 2, 1, 1, 1, 1, 10, 1, 1, 1, 0, 0, 0, 0, 0, 0, 1, 0, 1],
            "unique" => &[1, 3, 4, 1, 1, 1, 1, 1, 5, 6, 6, 6, 1, 1, 1, 0, 1, 2, 3, 0, 2],
            "reclaim" => &[0, 1, 4, 0, 0, 0, 0, 1, 5, 0, 0, 1, 8, 6, 4, 2, 3, 4, 0, 3, 0],
            _ => &[4, 4, 5, 3, 2, 2, 2, 2, 5, 3, 3, 3, 3, 2, 2, 1, 2, 2, 2, 1, 2],
        };
        let k = rng.weighted(w);
        let mut o = J::obj().set("op", TASK_OPS[k]).set("h", rng.below(4)).set("a", rng.below(40)).set("b", rng.below(40));
        if TASK_OPS[k] == "clone_shared" || TASK_OPS[k] == "is_unique_shared" {
            o = o.set("s", rng.below(2));
        }
        v.push(o);
    }
    J::Arr(v)
}

/// A random program. `family` biases towards one of the races named in the design.
pub fn gen_program(rng: &mut Rng) -> J {
    gen_program_f(rng, false)
}

/// `focus`: only the race families, only reference-counted storages (used where
/// executions are expensive, i.e. under Miri).
pub fn gen_program_f(rng: &mut Rng, focus: bool) -> J {
    let family = if focus { *rng.pick(&["promotion", "lastref", "lastref", "unique", "reclaim"]) } else { *rng.pick(&["promotion", "lastref", "unique", "reclaim", "mix", "mix"]) };
    let n_storages = if rng.chance(1, 4) { 2 } else { 1 };
    let mut storages = Vec::new();
    for _ in 0..n_storages {
        let repr = match family {
            "promotion" => *rng.pick(&["vec_exact", "vec_exact_adv", "vec_exact_adv", "bm_frozen", "bm_off_frozen"]),
            "reclaim" => *rng.pick(&["bm_halves", "bm_halves", "bm_split_frozen"]),
            _ if focus => *rng.pick(&["vec_exact", "vec_exact_adv", "vec_spare", "bm_frozen", "bm_split_frozen", "bm_off_frozen", "owner", "bm_halves", "bm_split_frozen", "owner_inline"]),
            _ => *rng.pick(REPRS),
        };
        storages.push(J::obj().set("repr", repr).set("n", *rng.pick(&[1usize, 2, 8, 9, 24, 33, 64])).set("seed", rng.next_u64()).set("extra", rng.range(0, 32)));
    }
    let n_tasks = rng.range(2, 4).min(if family == "mix" { 4 } else { 3 });
    let mut tasks = Vec::new();
    for _ in 0..n_tasks {
        let n_init = rng.range(0, 2);
        let mut init = Vec::new();
        for _ in 0..n_init {
            init.push(J::obj().set("s", rng.below(n_storages)).set("how", *rng.pick(&["clone", "clone", "slice", "half", "half"])).set("a", rng.below(40)).set("b", rng.below(40)));
        }
        let n_ops = rng.range(1, 6);
        let mut ops = gen_ops(rng, n_ops, family);
        if family == "promotion" {
            // all tasks race to promote the same still-unshared storage
            if let J::Arr(v) = &mut ops {
                v.insert(0, J::obj().set("op", "clone_shared").set("h", 0usize).set("a", 0usize).set("b", 0usize).set("s", 0usize));
            }
        }
        tasks.push(J::obj().set("init", if family == "promotion" { J::Arr(vec![]) } else { J::Arr(init) }).set("ops", ops).set("ret", rng.chance(1, 3)));
    }
    let root_early = family != "promotion" && rng.chance(1, 2);
    let strip = |ops: &J| -> J { J::Arr(ops.as_arr().iter().filter(|o| !(root_early && matches!(o.str("op"), Some("clone_shared") | Some("is_unique_shared")))).cloned().collect()) };
    let tasks: Vec<J> = tasks
        .into_iter()
        .map(|t| {
            let ops = strip(t.get("ops").unwrap());
            let mut t = t;
            t.put("ops", ops);
            t
        })
        .collect();
    J::obj()
        .set("family", family)
        .set("root_early", root_early)
        .set("storages", J::Arr(storages))
        .set("tasks", J::Arr(tasks))
        .set("main_ops", {
            let n = rng.range(0, 4);
            strip(&gen_ops(rng, n, family))
        })
        .set("root_first", rng.chance(1, 3))
        .set("second_wave", rng.chance(1, 4))
        .set("wave_ops", gen_ops(rng, 3, family))
        .set("drop_seed", rng.next_u64())
}

// ------------------------------------------------------------------ execution

#[derive(Clone, Copy)]
pub struct SharedRef(pub *const Bytes);
unsafe impl Send for SharedRef {}
unsafe impl Sync for SharedRef {}

pub struct Ctx {
    pub task: usize,
    pub storages: Vec<StorageInfo>,
    pub shared: Vec<Option<SharedRef>>,
    pub shared_models: Vec<Vec<u8>>,
}

fn pat(task: usize, i: usize) -> u8 {
    (0xC0u8 ^ (task as u8).wrapping_mul(37)).wrapping_add(i as u8)
}

fn check_read(ctx: &Ctx, h: &H, what: &str) {
    if let Some(r) = &h.real {
        let (p, l, _c) = view(r);
        plat::note_access(p, l, false, "read through a handle");
        let ok = match r {
            Real::B(b) => b[..] == h.model[..],
            Real::M(m) => m[..] == h.model[..],
            Real::V(v) => v[..] == h.model[..],
        };
        if !ok {
            viol(&["C05", "C01"], "wrong-bytes", format!("task {}: {}: handle reads bytes that differ from its model (len {} vs {})", ctx.task, what, l, h.model.len()));
        }
        if let (Some(e), Real::B(_)) = (h.exp_ptr, r) {
            if l > 0 && p != e {
                viol(&["C05", "C07"], "wrong-address", format!("task {}: {}: Bytes handle is not at the original address (+{} expected, moved by {})", ctx.task, what, 0, p as isize - e as isize));
            }
        }
    }
}

/// A conversion produced a BytesMut / Vec: if it still lives in the storage's own
/// buffer the task now has exclusive zero-copy ownership — nobody else may hold a
/// handle on that buffer, and the task overwrites all of it.
fn exclusive_check(ctx: &Ctx, h: &mut H, old_ptr: usize, what: &str) {
    if h.private {
        h.exp_ptr = None;
        return;
    }
    let st = ctx.storages[h.storage];
    let (p, l, c) = match &h.real {
        Some(r) => view(r),
        None => return,
    };
    let _ = old_ptr;
    let in_original = st.heap && st.size > 0 && c > 0 && p >= st.base && p + c <= st.base + st.size;
    if in_original {
        probe("zero_copy_exclusive");
        let others = reg_others_on(&st, h.reg);
        if !others.is_empty() {
            viol(
                &["C05", "C08"],
                "exclusive-while-shared",
                format!("task {}: {} obtained the original buffer without copying while {} other handle(s) on it are alive (e.g. task {}'s)", ctx.task, what, others.len(), others[0].task),
            );
        }
        // overwrite the whole region: any concurrent reader would see it
        plat::note_access(p, c.max(l), true, "overwrite after zero-copy exclusive conversion");
        match h.real.as_mut().unwrap() {
            Real::M(m) => {
                for (i, b) in m.iter_mut().enumerate() {
                    *b = pat(ctx.task, i);
                }
            }
            Real::V(v) => {
                for (i, b) in v.iter_mut().enumerate() {
                    *b = pat(ctx.task, i);
                }
            }
            _ => {}
        }
        for (i, b) in h.model.iter_mut().enumerate() {
            *b = pat(ctx.task, i);
        }
    } else {
        probe("conversion_copied");
        h.private = true;
    }
    h.exp_ptr = None;
}

pub fn run_ops(ctx: &Ctx, hs: &mut Vec<H>, ops: &[J]) {
    for op in ops {
        let name = op.str("op").unwrap_or("");
        let (a, b) = (op.us("a"), op.us("b"));
        if name == "clone_shared" {
            let s = op.us("s") % ctx.shared.len().max(1);
            if let Some(Some(sr)) = ctx.shared.get(s) {
                // several tasks cloning through one shared &Bytes
                let root: &Bytes = unsafe { &*sr.0 };
                let c = plat::track(|| root.clone());
                let exp = Some(root.as_ptr() as usize);
                let h = H::new(Real::B(c), ctx.shared_models[s].clone(), s, exp, ctx.task);
                check_read(ctx, &h, "clone through the shared &Bytes");
                hs.push(h);
                probe("clone_through_shared_ref");
            }
            continue;
        }
        if name == "is_unique_shared" {
            let s = op.us("s") % ctx.shared.len().max(1);
            if let Some(Some(sr)) = ctx.shared.get(s) {
                // the (racy, advisory) uniqueness query through a shared &Bytes while others clone it
                let root: &Bytes = unsafe { &*sr.0 };
                let u = plat::track(|| root.is_unique());
                let own = hs.iter().filter(|x| !x.private && x.storage == s && x.real.is_some() && x.model.len() > 0 && matches!(x.real, Some(Real::B(_)))).count();
                if u && own > 0 && ctx.storages[s].heap {
                    viol(&["C05", "C08"], "is_unique-true-while-shared", format!("task {}: is_unique() through the shared &Bytes = true while this task holds {} clone(s)", ctx.task, own));
                }
                probe("is_unique_through_shared_ref");
            }
            continue;
        }
        if hs.is_empty() {
            continue;
        }
        let i = op.us("h") % hs.len();
        let is_b = matches!(hs[i].real, Some(Real::B(_)));
        let is_m = matches!(hs[i].real, Some(Real::M(_)));
        if hs[i].real.is_none() {
            continue;
        }
        match name {
            "read" | "is_unique" => {
                check_read(ctx, &hs[i], name);
                if name == "is_unique" {
                    if let Some(Real::B(bb)) = &hs[i].real {
                        let st = ctx.storages[hs[i].storage];
                        let u = plat::track(|| bb.is_unique());
                        // racy by nature; only the certain direction is checked: true while this
                        // task itself holds a second handle on the same storage is impossible
                        let own_others = hs.iter().enumerate().filter(|(k, x)| *k != i && !x.private && x.storage == hs[i].storage && x.real.is_some() && matches!(x.real, Some(Real::B(_))) && x.model.len() > 0 && x.exp_ptr.is_some()).count();
                        if u && !hs[i].private && (own_others > 0 || !st.heap) && hs[i].exp_ptr.is_some() && hs[i].model.len() > 0 {
                            viol(&["C05", "C08"], "is_unique-true-while-shared", format!("task {}: is_unique() = true while the same task holds {} more handle(s) on the storage (heap: {})", ctx.task, own_others, st.heap));
                        }
                    }
                }
            }
            "clone" if is_b => {
                let c = match &hs[i].real {
                    Some(Real::B(x)) => plat::track(|| x.clone()),
                    _ => unreachable!(),
                };
                let mut h = H::new(Real::B(c), hs[i].model.clone(), hs[i].storage, hs[i].exp_ptr, ctx.task);
                h.private = hs[i].private;
                check_read(ctx, &h, "clone");
                hs.push(h);
            }
            "slice" if is_b => {
                let len = hs[i].model.len();
                let (x, y) = (a % (len + 1), b % (len + 1));
                let (lo, hi) = (x.min(y), x.max(y));
                let c = match &hs[i].real {
                    Some(Real::B(bb)) => plat::track(|| bb.slice(lo..hi)),
                    _ => unreachable!(),
                };
                let exp = if hi > lo { hs[i].exp_ptr.map(|p| p + lo) } else { None };
                let mut h = H::new(Real::B(c), hs[i].model[lo..hi].to_vec(), hs[i].storage, exp, ctx.task);
                h.private = hs[i].private;
                check_read(ctx, &h, "slice");
                hs.push(h);
            }
            "split_off" | "split_to" if is_b => {
                let len = hs[i].model.len();
                let at = a % (len + 1);
                let off = name == "split_off";
                let r = match hs[i].real.as_mut() {
                    Some(Real::B(bb)) => plat::track(|| if off { bb.split_off(at) } else { bb.split_to(at) }),
                    _ => unreachable!(),
                };
                let tail = hs[i].model.split_off(at);
                let (self_m, ret_m, self_e, ret_e) = if off {
                    (hs[i].model.clone(), tail, hs[i].exp_ptr, hs[i].exp_ptr.map(|p| p + at))
                } else {
                    (tail, hs[i].model.clone(), hs[i].exp_ptr.map(|p| p + at), hs[i].exp_ptr)
                };
                hs[i].model = self_m;
                hs[i].exp_ptr = self_e;
                hs[i].refresh();
                let st = hs[i].storage;
                let mut h = H::new(Real::B(r), ret_m, st, ret_e, ctx.task);
                h.private = hs[i].private;
                check_read(ctx, &h, name);
                check_read(ctx, &hs[i], name);
                hs.push(h);
            }
            "truncate" if is_b => {
                let n = a % (hs[i].model.len() + 1);
                if let Some(Real::B(bb)) = hs[i].real.as_mut() {
                    plat::track(|| bb.truncate(n));
                }
                hs[i].model.truncate(n);
                hs[i].refresh();
                check_read(ctx, &hs[i], "truncate");
            }
            "advance" => {
                let n = a % (hs[i].model.len() + 1);
                match hs[i].real.as_mut() {
                    Some(Real::B(bb)) => plat::track(|| bb.advance(n)),
                    Some(Real::M(m)) => plat::track(|| m.advance(n)),
                    _ => continue,
                }
                hs[i].model.drain(..n);
                hs[i].exp_ptr = hs[i].exp_ptr.map(|p| p + n);
                hs[i].refresh();
                check_read(ctx, &hs[i], "advance");
            }
            "drop" => {
                check_read(ctx, &hs[i], "before drop");
                let r = hs[i].take();
                plat::track(|| drop(r));
                hs.remove(i);
            }
            "try_into_mut" | "into_mut" | "into_vec" if is_b => {
                let bb = match hs[i].take() {
                    Some(Real::B(bb)) => bb,
                    _ => unreachable!(),
                };
                let old_ptr = bb.as_ptr() as usize;
                let storage = hs[i].storage;
                let was_private = hs[i].private;
                let model = std::mem::take(&mut hs[i].model);
                hs.remove(i);
                let nr: Real = match name {
                    "try_into_mut" => match plat::track(|| bb.try_into_mut()) {
                        Ok(m) => {
                            probe("try_into_mut_ok");
                            Real::M(m)
                        }
                        Err(bb) => {
                            probe("try_into_mut_err");
                            let mut h = H::new(Real::B(bb), model, storage, Some(old_ptr), ctx.task);
                            h.private = was_private;
                            check_read(ctx, &h, "try_into_mut (Err)");
                            hs.push(h);
                            continue;
                        }
                    },
                    "into_mut" => Real::M(plat::track(|| BytesMut::from(bb))),
                    _ => Real::V(plat::track(|| Vec::from(bb))),
                };
                let mut h = H::new(nr, model, storage, None, ctx.task);
                h.private = was_private;
                check_read(ctx, &h, name);
                exclusive_check(ctx, &mut h, old_ptr, name);
                check_read(ctx, &h, "after exclusive overwrite");
                hs.push(h);
            }
            "into_vec" if is_m => {
                let m = match hs[i].take() {
                    Some(Real::M(m)) => m,
                    _ => unreachable!(),
                };
                let old_ptr = m.as_ptr() as usize;
                let storage = hs[i].storage;
                let was_private = hs[i].private;
                let model = std::mem::take(&mut hs[i].model);
                hs.remove(i);
                let v = plat::track(|| Vec::from(m));
                let mut h = H::new(Real::V(v), model, storage, None, ctx.task);
                h.private = was_private;
                check_read(ctx, &h, "Vec::from(BytesMut)");
                exclusive_check(ctx, &mut h, old_ptr, "Vec::from(BytesMut)");
                hs.push(h);
            }
            "reserve" | "try_reclaim" | "extend" if is_m => {
                let st = ctx.storages[hs[i].storage];
                let (p0, _l0, c0) = view(hs[i].real.as_ref().unwrap());
                let n = match a % 4 {
                    0 => 1 + a,
                    1 => st.size,
                    2 => c0 + 1,
                    _ => a,
                };
                if name != "try_reclaim" {
                    reg_busy(hs[i].reg);
                }
                let grew = match hs[i].real.as_mut() {
                    Some(Real::M(m)) => match name {
                        "reserve" => {
                            plat::track(|| m.reserve(n));
                            true
                        }
                        "try_reclaim" => plat::track(|| m.try_reclaim(n)),
                        _ => {
                            let data: Vec<u8> = (0..n.min(48)).map(|k| pat(ctx.task, k + 100)).collect();
                            plat::note_access(p0, c0, true, "append into own BytesMut region");
                            plat::track(|| m.extend_from_slice(&data));
                            hs[i].model.extend_from_slice(&data);
                            true
                        }
                    },
                    _ => unreachable!(),
                };
                let (p1, l1, c1) = view(hs[i].real.as_ref().unwrap());
                if grew && name != "extend" && c1 - l1 < n {
                    viol(&["C05", "C04"], "reserve-promise-broken", format!("task {}: {}({}) left spare {}", ctx.task, name, n, c1 - l1));
                }
                hs[i].refresh();
                // reclaimed inside the original buffer beyond the old region => the task took the whole buffer back
                if !hs[i].private && st.heap && c1 > 0 && p1 >= st.base && p1 + c1 <= st.base + st.size && (p1 != p0 || c1 > c0) {
                    probe("reclaimed_original_buffer");
                    let others = reg_others_on(&st, hs[i].reg);
                    let overlapping: Vec<_> = others.iter().filter(|e| e.extent > 0 && e.ptr < p1 + c1 && p1 < e.ptr + e.extent).collect();
                    if !overlapping.is_empty() {
                        viol(&["C05", "C04"], "reclaim-overlaps-live-handle", format!("task {}: {}({}) took back a region that overlaps {} live handle(s)", ctx.task, name, n, overlapping.len()));
                    }
                    plat::note_access(p1, c1, true, "reclaim of the original buffer");
                }
                if !(st.heap && c1 > 0 && p1 >= st.base && p1 + c1 <= st.base + st.size) && c1 > 0 {
                    hs[i].private = true;
                }
                hs[i].exp_ptr = None;
                check_read(ctx, &hs[i], name);
            }
            "unsplit" if is_m => {
                // with another BytesMut of this task
                let j = (i + 1 + b) % hs.len();
                if j == i || !matches!(hs[j].real, Some(Real::M(_))) {
                    continue;
                }
                let other = match hs[j].take() {
                    Some(Real::M(m)) => m,
                    _ => unreachable!(),
                };
                let om = std::mem::take(&mut hs[j].model);
                let (p0, _l, c0) = view(hs[i].real.as_ref().unwrap());
                plat::note_access(p0, c0, true, "unsplit into own BytesMut region");
                reg_busy(hs[i].reg);
                if let Some(Real::M(m)) = hs[i].real.as_mut() {
                    plat::track(|| m.unsplit(other));
                }
                hs[i].model.extend_from_slice(&om);
                hs[i].refresh();
                hs[i].exp_ptr = None;
                check_read(ctx, &hs[i], "unsplit");
                hs.remove(j);
            }
            "freeze" if is_m => {
                let m = match hs[i].take() {
                    Some(Real::M(m)) => m,
                    _ => unreachable!(),
                };
                let p = m.as_ptr() as usize;
                let model = std::mem::take(&mut hs[i].model);
                let storage = hs[i].storage;
                let was_private = hs[i].private;
                hs.remove(i);
                let bb = plat::track(|| m.freeze());
                let mut h = H::new(Real::B(bb), model, storage, Some(p), ctx.task);
                h.private = was_private;
                check_read(ctx, &h, "freeze");
                hs.push(h);
            }
            "m_split_off" if is_m => {
                let (_p, l, c) = view(hs[i].real.as_ref().unwrap());
                let at = a % (c + 1);
                let r = match hs[i].real.as_mut() {
                    Some(Real::M(m)) => plat::track(|| m.split_off(at)),
                    _ => unreachable!(),
                };
                let tail = if at < l { hs[i].model.split_off(at) } else { Vec::new() };
                hs[i].refresh();
                let st = hs[i].storage;
                let mut h = H::new(Real::M(r), tail, st, None, ctx.task);
                h.private = hs[i].private;
                check_read(ctx, &h, "BytesMut::split_off");
                hs.push(h);
            }
            "write" if is_m => {
                // BytesMut regions are exclusive: write all of it, including spare capacity
                let (p, _l, c) = view(hs[i].real.as_ref().unwrap());
                plat::note_access(p, c, true, "write through a BytesMut");
                if let Some(Real::M(m)) = hs[i].real.as_mut() {
                    for (k, x) in m.iter_mut().enumerate() {
                        *x = pat(ctx.task, k + 7);
                    }
                    let spare = m.spare_capacity_mut();
                    for (k, x) in spare.iter_mut().enumerate() {
                        x.write(pat(ctx.task, k + 50));
                    }
                    let add = spare.len().min(b % 5);
                    let nl = m.len() + add;
                    let l0 = m.len();
                    unsafe { m.set_len(nl) };
                    for (k, x) in hs[i].model.iter_mut().enumerate() {
                        *x = pat(ctx.task, k + 7);
                    }
                    for k in 0..add {
                        hs[i].model.push(pat(ctx.task, k + 50));
                    }
                    let _ = l0;
                }
                hs[i].refresh();
                check_read(ctx, &hs[i], "write");
            }
            _ => {}
        }
    }
}

/// Build one storage; returns (root handle, further main-owned handles, info).
fn build_storage(idx: usize, spec: &J) -> (Vec<H>, StorageInfo) {
    let n = spec.us("n").max(1).min(256);
    let extra = spec.us("extra").min(64);
    let data = Rng::new(spec.u64("seed")).bytes(n);
    let repr = spec.str("repr").unwrap_or("vec_exact");
    let mut out: Vec<H> = Vec::new();
    let info;
    match repr {
        "static" => {
            let m = n.min(STATIC_BYTES.len());
            let b = Bytes::from_static(&STATIC_BYTES[..m]);
            info = StorageInfo { idx, base: 0, size: 0, heap: false };
            let p = b.as_ptr() as usize;
            out.push(H::new(Real::B(b), STATIC_BYTES[..m].to_vec(), idx, Some(p), 0));
        }
        "owner" => {
            let b = plat::track(|| Bytes::from_owner(OwnerBuf { data: data.clone() }));
            info = StorageInfo { idx, base: b.as_ptr() as usize, size: n, heap: false };
            let p = b.as_ptr() as usize;
            out.push(H::new(Real::B(b), data, idx, Some(p), 0));
        }
        "owner_inline" => {
            let m = n.min(48);
            let mut arr = [0u8; 48];
            arr[..m].copy_from_slice(&data[..m]);
            let b = plat::track(|| Bytes::from_owner(InlineOwner(arr, m)));
            info = StorageInfo { idx, base: b.as_ptr() as usize, size: m, heap: false };
            let p = b.as_ptr() as usize;
            out.push(H::new(Real::B(b), data[..m].to_vec(), idx, Some(p), 0));
        }
        "vec_exact" => {
            let b = plat::track(|| Bytes::from(data.clone().into_boxed_slice()));
            info = StorageInfo { idx, base: b.as_ptr() as usize, size: n, heap: true };
            let p = b.as_ptr() as usize;
            out.push(H::new(Real::B(b), data, idx, Some(p), 0));
        }
        "vec_exact_adv" => {
            // still unpromoted (promotable) but the view no longer starts at the buffer start
            let k = if n > 1 { 1 + extra % (n - 1) } else { 0 };
            let (b, base) = plat::track(|| {
                let mut b = Bytes::from(data.clone().into_boxed_slice());
                let base = b.as_ptr() as usize;
                b.advance(k);
                (b, base)
            });
            info = StorageInfo { idx, base, size: n, heap: true };
            let p = b.as_ptr() as usize;
            out.push(H::new(Real::B(b), data[k..].to_vec(), idx, Some(p), 0));
        }
        "vec_spare" => {
            let b = plat::track(|| {
                let mut v = Vec::with_capacity(n + extra + 1);
                v.extend_from_slice(&data);
                Bytes::from(v)
            });
            info = StorageInfo { idx, base: b.as_ptr() as usize, size: n + extra + 1, heap: true };
            let p = b.as_ptr() as usize;
            out.push(H::new(Real::B(b), data, idx, Some(p), 0));
        }
        "bm_frozen" | "bm_off_frozen" => {
            let off = if repr == "bm_off_frozen" { extra % n } else { 0 };
            let (b, base, cap) = plat::track(|| {
                let mut m = BytesMut::with_capacity(n + extra);
                m.extend_from_slice(&data);
                let base = m.as_ptr() as usize;
                let cap = m.capacity();
                m.advance(off);
                (m.freeze(), base, cap)
            });
            info = StorageInfo { idx, base, size: cap, heap: true };
            let p = b.as_ptr() as usize;
            out.push(H::new(Real::B(b), data[off..].to_vec(), idx, Some(p), 0));
        }
        "bm_split_frozen" => {
            let (b1, b2, base, cap, cut) = plat::track(|| {
                let mut m = BytesMut::with_capacity(n + extra);
                m.extend_from_slice(&data);
                let base = m.as_ptr() as usize;
                let cap = m.capacity();
                let cut = n / 2;
                let tail = m.split_off(cut);
                (m.freeze(), tail.freeze(), base, cap, cut)
            });
            info = StorageInfo { idx, base, size: cap, heap: true };
            let (p1, p2) = (b1.as_ptr() as usize, b2.as_ptr() as usize);
            out.push(H::new(Real::B(b1), data[..cut].to_vec(), idx, Some(p1), 0));
            out.push(H::new(Real::B(b2), data[cut..].to_vec(), idx, Some(p2), 0));
        }
        _ => {
            // bm_halves: a BytesMut cut into up to 4 pieces that stay BytesMut
            let (parts, base, cap) = plat::track(|| {
                let mut m = BytesMut::with_capacity(n + extra);
                m.extend_from_slice(&data);
                let base = m.as_ptr() as usize;
                let cap = m.capacity();
                let mut parts: Vec<(BytesMut, usize, usize)> = Vec::new();
                let k = 2 + (extra % 3);
                let mut start = 0usize;
                for q in 1..k {
                    let cut = (n * q / k).saturating_sub(start);
                    let head = m.split_to(cut.min(m.len()));
                    let l = head.len();
                    parts.push((head, start, start + l));
                    start += l;
                }
                let l = m.len();
                parts.push((m, start, start + l));
                (parts, base, cap)
            });
            info = StorageInfo { idx, base, size: cap, heap: true };
            for (m, lo, hi) in parts {
                let p = m.as_ptr() as usize;
                out.push(H::new(Real::M(m), data[lo..hi].to_vec(), idx, Some(p), 0));
            }
        }
    }
    (out, info)
}

/// The whole program; runs on the main task of an execution.
pub fn run_program(prog: &J) {
    let mut storages: Vec<StorageInfo> = Vec::new();
    let mut main_hs: Vec<H> = Vec::new();
    let mut roots: Vec<usize> = Vec::new(); // index into main_hs of each storage's root
    for (idx, spec) in prog.arr("storages").iter().enumerate() {
        let (hs, info) = build_storage(idx, spec);
        storages.push(info);
        roots.push(main_hs.len());
        main_hs.extend(hs);
    }
    // initial handles of every task, derived by main
    let tasks = prog.arr("tasks");
    let mut inits: Vec<Vec<H>> = Vec::new();
    for (t, spec) in tasks.iter().enumerate() {
        let mut v = Vec::new();
        for ini in spec.arr("init") {
            let s = ini.us("s") % storages.len();
            let how = ini.str("how").unwrap_or("clone");
            // "half": hand over one of main's handles on that storage other than the root
            if how == "half" {
                if let Some(pos) = (0..main_hs.len()).find(|&k| main_hs[k].storage == s && k != roots[s]) {
                    let mut h = main_hs.remove(pos);
                    for r in roots.iter_mut() {
                        if *r > pos {
                            *r -= 1;
                        }
                    }
                    reg_del(h.reg);
                    let real = h.real.take().unwrap();
                    v.push(H::new(real, std::mem::take(&mut h.model), s, h.exp_ptr, t + 1));
                    continue;
                }
            }
            let root = &main_hs[roots[s]];
            if let Some(Real::B(b)) = &root.real {
                let len = root.model.len();
                if how == "slice" && len > 0 {
                    let (x, y) = (ini.us("a") % (len + 1), ini.us("b") % (len + 1));
                    let (lo, hi) = (x.min(y), x.max(y));
                    let c = plat::track(|| b.slice(lo..hi));
                    let exp = if hi > lo { root.exp_ptr.map(|p| p + lo) } else { None };
                    v.push(H::new(Real::B(c), root.model[lo..hi].to_vec(), s, exp, t + 1));
                } else {
                    let c = plat::track(|| b.clone());
                    v.push(H::new(Real::B(c), root.model.clone(), s, root.exp_ptr, t + 1));
                }
            }
        }
        inits.push(v);
    }
    // shared &Bytes for clone_shared: only Bytes roots, and main promises not to move or
    // mutate them until all tasks are joined
    let mut shared: Vec<Option<SharedRef>> = Vec::new();
    let mut shared_models: Vec<Vec<u8>> = Vec::new();
    for s in 0..storages.len() {
        let root = &main_hs[roots[s]];
        match &root.real {
            Some(Real::B(b)) => {
                shared.push(Some(SharedRef(b as *const Bytes)));
                shared_models.push(root.model.clone());
            }
            _ => {
                shared.push(None);
                shared_models.push(Vec::new());
            }
        }
    }
    // NOTE: main_hs must not reallocate while tasks hold pointers into it: take the roots out
    let mut pinned_roots: Vec<H> = Vec::new();
    {
        let mut idxs: Vec<usize> = roots.clone();
        idxs.sort();
        idxs.dedup();
        for k in idxs.into_iter().rev() {
            pinned_roots.push(main_hs.remove(k));
        }
        pinned_roots.reverse();
    }
    // re-point the shared refs at the pinned (no longer moving) roots
    for (s, pr) in pinned_roots.iter().enumerate() {
        if let Some(Real::B(b)) = &pr.real {
            shared[s] = Some(SharedRef(b as *const Bytes));
        } else {
            shared[s] = None;
        }
    }
    let pinned_roots = pinned_roots; // frozen: not moved until after the joins

    let mut joins = Vec::new();
    for (t, spec) in tasks.iter().enumerate() {
        let ops: Vec<J> = spec.arr("ops").to_vec();
        let ret = spec.boolean("ret");
        let hs = inits.remove(0);
        let ctx = Ctx { task: t + 1, storages: storages.clone(), shared: shared.clone(), shared_models: shared_models.clone() };
        joins.push(plat::spawn(move || {
            let mut hs = hs;
            run_ops(&ctx, &mut hs, &ops);
            if ret {
                hs
            } else {
                // drop own handles in order
                for mut h in hs.drain(..) {
                    check_read(&ctx, &h, "final read");
                    let r = h.take();
                    plat::track(|| drop(r));
                }
                Vec::new()
            }
        }));
    }
    // main's own operations while the tasks run (never on the pinned roots)
    let mctx = Ctx { task: 0, storages: storages.clone(), shared: shared.clone(), shared_models: shared_models.clone() };
    let main_ops: Vec<J> = prog.arr("main_ops").to_vec();
    // nobody clones through the shared refs: main may let go of the roots while the tasks
    // still run, so the last reference is dropped by whichever task comes last
    let is_sh = |o: &J| matches!(o.str("op"), Some("clone_shared") | Some("is_unique_shared"));
    let uses_shared = tasks.iter().any(|t| t.arr("ops").iter().any(|o| is_sh(o))) || main_ops.iter().any(|o| is_sh(o));
    let mut pinned_roots = pinned_roots;
    if prog.boolean("root_early") && !uses_shared {
        probe("roots_dropped_while_tasks_run");
        for mut h in pinned_roots.drain(..) {
            check_read(&mctx, &h, "root before early drop");
            let r = h.take();
            plat::track(|| drop(r));
        }
    }
    run_ops(&mctx, &mut main_hs, &main_ops);

    let mut returned: Vec<H> = Vec::new();
    for j in joins {
        let hs = plat::join(j);
        returned.extend(hs);
    }
    // all tasks joined: roots may move again
    let mut all: Vec<H> = Vec::new();
    let root_first = prog.boolean("root_first");
    if root_first {
        for mut h in pinned_roots {
            check_read(&mctx, &h, "root before drop");
            let r = h.take();
            plat::track(|| drop(r));
        }
    } else {
        all.extend(pinned_roots);
    }
    all.extend(main_hs);
    // migration: handles created and used on one task continue on another
    if prog.boolean("second_wave") && !returned.is_empty() {
        probe("second_wave");
        let ops: Vec<J> = prog.arr("wave_ops").to_vec();
        let ctx = Ctx { task: 9, storages: storages.clone(), shared: vec![None; storages.len()], shared_models: shared_models.clone() };
        let j = plat::spawn(move || {
            let mut hs = returned;
            run_ops(&ctx, &mut hs, &ops);
            hs
        });
        // the roots are ordinary (movable, mutable) handles now: no shared refs any more
        let mctx2 = Ctx { task: 0, storages: storages.clone(), shared: vec![None; storages.len()], shared_models: shared_models.clone() };
        run_ops(&mctx2, &mut all, &main_ops);
        all.extend(plat::join(j));
    } else {
        all.extend(returned);
    }
    // final drops in a seeded order
    let mut rng = Rng::new(prog.u64("drop_seed"));
    while !all.is_empty() {
        let k = rng.below(all.len());
        let mut h = all.swap_remove(k);
        check_read(&mctx, &h, "final read");
        let r = h.take();
        plat::track(|| drop(r));
    }
    let left = if plat::BOOKKEEPING { plat::untracked(|| REGISTRY.lock().unwrap().len()) } else { 0 };
    if left != 0 {
        viol(&["C05"], "harness-registry-not-empty", format!("{} registry entries left (harness bug)", left));
    }
    let _ = BufMut::remaining_mut(&Vec::<u8>::new());
}
