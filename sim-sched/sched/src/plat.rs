//! Platform layer of the concurrent programs for shuttle: spawn/join wrappers that
//! carry the happens-before tokens and keep the allocator's TRACK flag per task.

use std::sync::atomic::{AtomicUsize, Ordering};
use std::sync::Arc;

use rt::alloc;

/// registry / probes enabled (they use a std Mutex; under shuttle that adds no edges the
/// HB ledger cannot see, because the ledger only believes the orderings it is shown)
pub const BOOKKEEPING: bool = true;

pub fn track<R>(f: impl FnOnce() -> R) -> R {
    alloc::track(f)
}
pub fn untracked<R>(f: impl FnOnce() -> R) -> R {
    alloc::untracked(f)
}
pub fn note_access(ptr: usize, len: usize, write: bool, what: &str) {
    rt::atomic::note_access(ptr, len, write, what)
}

pub struct JoinHandle<T> {
    inner: shuttle::thread::JoinHandle<T>,
    child: Arc<AtomicUsize>,
}

pub fn spawn<F, T>(f: F) -> JoinHandle<T>
where
    F: FnOnce() -> T + Send + 'static,
    T: Send + 'static,
{
    let saved = alloc::set_track(false);
    let token = rt::atomic::spawn_token();
    let child = Arc::new(AtomicUsize::new(usize::MAX));
    let c2 = child.clone();
    let inner = shuttle::thread::spawn(move || {
        alloc::set_track(false);
        let me = usize::from(shuttle::current::me());
        c2.store(me, Ordering::SeqCst);
        rt::atomic::child_start(me, &token);
        let r = f();
        alloc::set_track(false);
        rt::atomic::child_end(me);
        r
    });
    alloc::set_track(saved);
    JoinHandle { inner, child }
}

pub fn join<T>(h: JoinHandle<T>) -> T {
    let saved = alloc::set_track(false);
    let me = usize::from(shuttle::current::me());
    let r = h.inner.join().expect("task panicked");
    let c = h.child.load(Ordering::SeqCst);
    rt::atomic::joined(me, c);
    alloc::set_track(saved);
    r
}
