fn main() {
    println!("cargo:rustc-cfg=tokio_rs_bytes_verif");
    println!("cargo:rerun-if-changed=build.rs");
}
