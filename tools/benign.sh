#!/bin/bash
# tools/benign.sh [repo-dir]  — applies every /verif/benign/<k>-<n>/patch.diff to the repo in turn, runs all 16
# checks at a small scale against it and undoes it; prints one line per check that did not exit 0.
cd "$(dirname "$0")/.."
REPO=${1:-/repo}
ONLY=${2:-}   # optional regex on the directory name, e.g. "^(8|9|1[0-3])-"
ALL="C01:0.1 C02:0.1 C03:0.1 C04:0.1 C05:0.1 C06:0.1 C07:0.1 C08:0.1 C09:0.1 C10:0.1 C11:0.1 C12:0.1 C13:0.1 C16:0.2 C17:0.1 C18:0.3"
for d in benign/*-*/; do
  pd=$d/patch.diff
  [ -f $pd ] || continue
  if [ -n "$ONLY" ] && ! basename $d | grep -qE "$ONLY"; then continue; fi
  echo "== benign $(basename $d)"
  git -C $REPO apply $PWD/$pd || { echo "APPLY FAILED"; continue; }
  for c in $ALL; do
    id=${c%%:*}; sc=${c##*:}
    out=$(./check $id --scale $sc 2>&1)
    rc=$?
    if [ $rc -ne 0 ]; then echo "$id exit $rc | $(echo "$out" | grep -E 'kind=|VIOLATION|HARNESS|vs reference|Error' | head -3 | cut -c1-300 | tr '\n' ' ')"; fi
  done
  git -C $REPO checkout -- .
  echo "   done $(basename $d)"
done
echo ALLDONE
