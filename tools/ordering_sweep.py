#!/usr/bin/env python3
"""tools/ordering_sweep.py [scale]

Sensitivity sweep over the memory orderings of the reference counting: every
`Ordering::{Acquire,Release,AcqRel}` in src/bytes.rs and src/bytes_mut.rs is weakened, one at a
time (AcqRel -> Release, Acquire and Relaxed; Acquire/Release -> Relaxed), C06 is run against
it and /repo is restored. Prints one line per mutant; results are summarised in DESIGN.md §15.
A weakening that stays silent is not necessarily a miss: some orderings in the crate are
stronger than the C11 model needs (the line says what C06 and Miri saw)."""
import re, subprocess, sys, os, json

scale = sys.argv[1] if len(sys.argv) > 1 else "0.5"
REPO = "/repo"
out = []
for f in ("src/bytes.rs", "src/bytes_mut.rs"):
    p = os.path.join(REPO, f)
    src = open(p).read()
    sites = [(m.start(), m.group(1)) for m in re.finditer(r"Ordering::(Acquire|Release|AcqRel)\b", src)]
    for pos, old in sites:
        line = src.count("\n", 0, pos) + 1
        for new in (["Release", "Acquire", "Relaxed"] if old == "AcqRel" else ["Relaxed"]):
            mutated = src[:pos] + "Ordering::" + new + src[pos + len("Ordering::" + old):]
            open(p, "w").write(mutated)
            try:
                # a failure ordering stronger than the success ordering does not compile / panics: skip
                r = subprocess.run(["/verif/check", "C06", "--scale", scale], stdout=subprocess.PIPE, stderr=subprocess.PIPE, text=True)
                kinds = ""
                for l in r.stdout.splitlines():
                    if "violating runs" in l:
                        kinds = l.strip()
                res = {0: "silent", 1: "CAUGHT", 2: "harness error"}.get(r.returncode, str(r.returncode))
                print("%s:%d %s -> %s : %s %s" % (f, line, old, new, res, kinds[:200]), flush=True)
                out.append({"file": f, "line": line, "from": old, "to": new, "result": res, "kinds": kinds})
            finally:
                subprocess.run(["git", "-C", REPO, "checkout", "--", f])
os.makedirs("/verif/coverage", exist_ok=True)
json.dump(out, open("/verif/coverage/ordering_sweep.json", "w"), indent=1)
