#!/usr/bin/env python3
"""Regenerates /verif/MANIFEST.json from the table below (kept in one place so the
manifest never drifts from what ./check implements)."""
import json, os, subprocess
V = os.path.dirname(os.path.dirname(os.path.abspath(__file__)))

SEQ_NOTE = ("Trusted base: SimAlloc ledger/red zones/poison (sim/rt/src/alloc.rs), the value model and oracles in "
            "sim/seq/src/{ops,world}.rs, rustc. Sampled histories only; sizes < 1 MiB; <=40 (quick) / <=160 (thorough) steps per run.")

CHECKS = {
 "C01": dict(engine="E-seq", cat="exploration", ref="DESIGN.md §5 C01",
   technique="deterministic simulation: seeded handle-world runs against a per-handle Vec<u8> value model, simulator-owned allocator (address parity, realloc move/in-place)",
   text="Seeded search over operation histories (all constructors/representations, all view/split/convert/grow operations, boundary arguments) in debug and release builds; after every step every live handle is compared with an independent Vec<u8> model. Evidence, not proof.",
   note=SEQ_NOTE),
 "C02": dict(engine="E-seq", cat="exploration", ref="DESIGN.md §5 C02",
   technique="deterministic simulation with an allocator oracle: ledger (layout-exact free, double/invalid free), red zones, poison+quarantine, view-range checks; worker crash = observation via crash journal",
   text="Same histories as C01 plus out-of-contract/near-usize::MAX arguments, even/odd/mixed address placement, debug+release; every dealloc/realloc must name a live block with the identical Layout, canaries and poison must stay intact, every view must lie inside one live block before it is touched.",
   note=SEQ_NOTE),
 "C03": dict(engine="E-seq", cat="exploration", ref="DESIGN.md §5 C03",
   technique="deterministic simulation: allocation ledger balance under seeded drop permutations, instrumented from_owner owners (as_ref/drop counters, as_ref panic injection)",
   text="Ledger must be empty whenever the world is empty and after dropping survivors in a seeded permutation; a byte buffer nobody points into must already be freed; a view must never point into a freed block; owner as_ref==1, dropped exactly once, not before the last non-empty view, also when as_ref panics.",
   note=SEQ_NOTE),
 "C04": dict(engine="E-seq", cat="exploration", ref="DESIGN.md §5 C04",
   technique="deterministic simulation: address-range disjointness against the allocator ledger after every step, scribble steps into spare capacity, boundary-valued reserve/try_reclaim arguments in debug and release",
   text="BytesMut-heavy histories; [ptr,ptr+capacity) of all BytesMut pairwise disjoint, disjoint from every Bytes, inside one live block; reserve/try_reclaim post-conditions with arguments around 0, spare, allocation size, isize::MAX, usize::MAX.",
   note=SEQ_NOTE),
 "C07": dict(engine="E-seq", cat="exploration", ref="DESIGN.md §5 C07",
   technique="deterministic simulation: per-operation address algebra plus allocator events during the call (any align-1 allocation = a byte buffer was made)",
   text="For each listed sharing operation the result must start at source address + logical offset and the call must produce no align-1 allocator event, on every representation reached by generated histories.",
   note=SEQ_NOTE),
 "C08": dict(engine="E-seq", cat="exploration", ref="DESIGN.md §5 C08",
   technique="deterministic simulation: alone/shared/unknown classification of every handle from ledger + live-handle addresses at every step; try_into_mut and sole-owner reclaim probes",
   text="is_unique must be false when another non-empty handle shares the block or the data is static/owner-backed, true when the handle is alone on a crate-allocated block; try_into_mut Ok iff is_unique; an empty sole BytesMut reclaims any n <= allocation size without allocating.",
   note=SEQ_NOTE),
 "C13": dict(engine="E-seq (fault mode)", cat="fault_enumeration", ref="DESIGN.md §5 C13",
   technique="deterministic simulation with fault injection: out-of-contract arguments at seeded points of generated histories, catch_unwind, snapshot comparison of every handle, ledger balance at the end",
   text="10-30% of steps carry an out-of-contract argument (len+1, cap+1, reversed/overflowing ranges, usize::MAX, isize::MAX+k, foreign slice_ref, unrepresentable capacity requests); the call must panic or be the documented no-op, every handle must be unchanged afterwards, the history continues on the same handles, storage is released exactly once. Debug and release.",
   note=SEQ_NOTE),
}

BUF_NOTE = ("Trusted base: the flat-sequence / capacity-tree models and the lawful harness fakes in sim/buf/src, SimAlloc, rustc. "
            "Sampled nests (depth <=4) and operation sequences only; leaf sizes <= 120 bytes.")
CHECKS.update({
 "C09": dict(engine="E-buf", cat="exploration", ref="DESIGN.md §5 C09",
   technique="deterministic simulation of byte streams: seeded chunk segmentation (short-read analogue, incl. empty chunks) and adapter nesting of every Buf implementor, cursor operations checked step by step against a flat Vec<u8> model",
   text="Every Buf of the crate (slice, Bytes in each representation, BytesMut, Cursor over Vec/slice/Bytes incl. position beyond the end, VecDeque incl. wrapped, Chain, Take, &mut, Box, Box<dyn Buf>) in seeded nests to depth 4 over lawful segmented leaves; remaining/chunk/advance/chunks_vectored/copy_to_slice/copy_to_bytes/into_iter laws after every operation; debug and release.",
   note=BUF_NOTE),
 "C10": dict(engine="E-buf", cat="exploration", ref="DESIGN.md §5 C10",
   technique="deterministic simulation of byte streams: stratified placement of chunk boundaries inside and around each value x every get_/try_get_ method x nbytes x shortfall, expectation from from_{be,le,ne}_bytes on the flat model",
   text="Weakest fit for the technique (only the segmentation is environment-controlled); decided in E-buf because the same runs already cut sources at every offset. Half of the runs enumerate (method, nbytes, boundary position, shortfall) cells, half are random nests; value, cursor movement, Err fields and panics are compared with the model in debug and release.",
   note=BUF_NOTE),
 "C11": dict(engine="E-buf", cat="exploration", ref="DESIGN.md §5 C11",
   technique="deterministic simulation of byte sinks: seeded target nests (Vec, BytesMut, &mut [u8], &mut [MaybeUninit<u8>], segmented user BufMut, Chain, Limit, &mut, Box) inside guard-byte frames, appended-bytes and capacity-tree model, segmented sources for put(Buf), read-back with the matching getter",
   text="After each put_X/put_slice/put_bytes/put(Buf)/manual chunk_mut+advance_mut: remaining_mut, chunk_mut laws, exact fill levels; at the end the flattened target equals the appended bytes, guard bytes and bytes after the cursor are untouched, every typed value reads back; writes that do not fit must panic.",
   note=BUF_NOTE),
 "C12": dict(engine="E-buf", cat="exploration", ref="DESIGN.md §5 C12",
   technique="deterministic simulation of byte streams: adapters at the root, nested and temporary (take/limit/chain/reader/writer over &mut nest), set_limit and get_mut mid-stream, deep inspection via limit()/get_ref()/first_ref()/last_ref()/into_inner() against the model",
   text="Limits 0/inside/equal/beyond/usize::MAX, set_limit changes mid-stream, io::Read/BufRead/Write transfers of min(available, requested); after any sequence every inner buffer must have advanced by exactly the bytes that went through its adapter.",
   note=BUF_NOTE),
})

SCHED_NOTE = ("Trusted base: shuttle 0.9.3 (SC interleavings; every atomic access of the crate is a scheduling point via hook H1/H2), the rt::atomic "
              "happens-before ledger (C++20 release sequences over the source orderings), the value model + live-handle registry of sim-sched/sched/src/prog.rs, "
              "SimAlloc, and for the Miri tier: Miri's scheduler, weak-memory emulation and data-race detector (nightly 2026-05-03). Programs: 2-4 tasks x <=6 ops.")
CHECKS.update({
 "C05": dict(engine="E-sched (+E-miri in thorough)", cat="exploration", ref="DESIGN.md §5 C05",
   technique="deterministic simulation: seeded schedule search (uniform random / PCT / burst schedulers implementing shuttle's Scheduler trait) over generated multi-task programs on the crate's real atomics; per-task value+address model, live-handle registry vs. allocator ledger; replay = recorded decisions minimised to preemption directives",
   text="Programs targeting the promotion race (several tasks cloning through one &Bytes), the last-reference race and the unique-owner race (try_into_mut / Into<BytesMut> / Into<Vec> / reclaiming reserve vs. droppers and cloners) on every shared representation; each task checks bytes and address, a zero-copy exclusive result must find no other live handle on the buffer and then overwrites it, every block is freed exactly once and the ledger is empty at the end.",
   note=SCHED_NOTE),
 "C06": dict(engine="E-miri + E-sched HB ledger", cat="exploration", ref="DESIGN.md §5 C06",
   technique="deterministic simulation: (1) the same programs on std threads under Miri, one -Zmiri-seed = one execution (Miri's scheduler, stale-value weak-memory emulation, C11 data-race detector, leak check); (2) ordering-aware vector-clock ledger inside the shuttle runs: happens-before recomputed from the orderings written in the source, checked at every deallocation, exclusive overwrite and reclaim",
   text="shuttle alone treats every ordering as SeqCst, so a weakened Release/Acquire is invisible to it; the ledger (sound on SC executions, ~10^5 executions/s, minimisable schedules) and Miri (real C11 semantics incl. non-atomic accesses of the crate itself, ~10 executions/s) decide together whether every use of buffer and control block happens-before its deallocation or exclusive reuse.",
   note=SCHED_NOTE),
})

CHECKS.update({
 "C16": dict(engine="E-seq + E-buf differential", cat="exploration", ref="DESIGN.md §5 C16",
   technique="deterministic simulation, differential across configurations: each generated program (concrete operation journal) is replayed op-for-op under allocator parity {even,odd,mixed} x realloc {move,in-place} x profile {debug,release} x features {std,no-std,extra-platforms}; per-step outcome digests and oracle verdicts must be identical",
   text="Programs are generated once in the reference configuration (debug, std) including out-of-contract arguments, then replayed in 15 other E-seq configurations and 2 other E-buf configurations; digests contain operation outcome (ok/panic), returned booleans, and per handle len/capacity/content hash/is_unique, never addresses. Sees debug-panics/release-wraps divergences, even/odd vtable differences, cfg(feature) differences.",
   note=SEQ_NOTE + " no-std builds exist for E-seq only (E-buf's harness needs std::io)."),
 "C17": dict(engine="E-buf byzantine mode + E-miri subset", cat="fault_enumeration", ref="DESIGN.md §5 C17",
   technique="deterministic simulation with fault injection into caller-supplied safe trait objects: LyingBuf/LyingIter/LyingOwner follow a seeded fault schedule (method, call number -> lie or panic), stratified over (consumer, lie kind, call index); oracles: allocator ledger, red zones, guard frames, leak check, worker crash; Miri interprets a subset to see out-of-bounds reads",
   text="22 consumer entry points x 17 lie kinds x call indices 1..8, plus sampled multi-lie schedules; wrong data and panics are accepted, memory-safety observations are not. Native runs in debug and release; ~1500 cases per quick run under Miri.",
   note=BUF_NOTE + " Out-of-bounds reads are only visible to the Miri subset (and to a native crash)."),
 "C18": dict(engine="E-seq long-history mode", cat="exploration", ref="DESIGN.md §5 C18",
   technique="deterministic simulation over long histories: balanced periodic refill/consume patterns on one recycling BytesMut for up to 10^5 (quick) / 10^6 (thorough) rounds under the counting allocator; adaptive warm-up N, then 100*N rounds: peak live bytes must not rise, no byte-buffer allocation inside refill calls when every split-off part was dropped, sole-empty-handle reserve never allocates; calibrated loose bound as back-stop",
   text="Because the input is periodic and balanced, a correct implementation is eventually periodic, so the no-rise / no-allocation rules are exact after warm-up. Warm-up is measured in front-consumed bytes (8x the largest capacity + retained bytes without the peak rising).",
   note=SEQ_NOTE + " Patterns that do not settle within the round limit (a few %) are only reported on a clear upward trend or beyond 8x the calibrated bound."),
})

NOT_YET = {
 "C05": "not yet claimed: E-sched (shuttle) check under construction",
 "C06": "not yet claimed: E-miri / HB-ledger check under construction",
 "C09": "not yet claimed: E-buf check under construction",
 "C10": "not yet claimed: E-buf check under construction",
 "C11": "not yet claimed: E-buf check under construction",
 "C12": "not yet claimed: E-buf check under construction",
 "C16": "not yet claimed: differential configuration check under construction",
 "C17": "not yet claimed: byzantine fault-injection check under construction",
 "C18": "not yet claimed: long-history recycling check under construction",
}
NA = {
 "C14": "pure function of two byte strings (every impl delegates to the slice; no schedule, fault, history or environment choice can influence it): input enumeration, not simulation — see DESIGN.md §6",
 "C15": "pure function of one byte string (formatting / serde of as_ref()); no interleaving, fault or history dimension for a simulator to own — see DESIGN.md §6",
}

def main():
    hooks_commits = []
    try:
        out = subprocess.run(["git", "-C", "/repo", "log", "--format=%h %s"], stdout=subprocess.PIPE, text=True).stdout
        hooks_commits = [l.split()[0] for l in out.splitlines() if l.split(" ", 1)[1].startswith("verif hook")]
    except Exception:
        pass
    checks = []
    for pid in sorted(CHECKS):
        c = CHECKS[pid]
        checks.append({
            "property_id": pid,
            "quick_cmd": "./check %s --tier quick" % pid,
            "thorough_cmd": "./check %s --tier thorough" % pid,
            "evidence_file": "/verif/evidence/%s.json" % pid,
            "replay_cmd_template": "./check %s --replay {path}" % pid,
            "engine": c["engine"],
            "level_claimed": {"category": c["cat"], "text": c["text"], "design_ref": c["ref"]},
            "level_note": c["note"],
            "technique": c["technique"],
        })
    na = [{"property_id": k, "reason": v} for k, v in sorted({**NA, **{k: v for k, v in NOT_YET.items() if k not in CHECKS}}.items())]
    m = {
        "version": 1,
        "setup_cmd": "./check --setup",
        "hooks": {
            "guard": "cfg(tokio_rs_bytes_verif)",
            "enable": "E-sched builds /repo/src/lib.rs through the shadow manifest sim-sched/bytes-shadow whose build.rs emits cargo:rustc-cfg=tokio_rs_bytes_verif; all other engines build /repo unmodified (no hook)",
            "baseline_off_cmd": "cd /repo && cargo test --workspace --no-fail-fast --offline",
            "source_commits": hooks_commits,
            "add_only": True,
        },
        "engines": [
            {"name": "E-seq", "path": "sim/seq", "serves_properties": ["C01", "C02", "C03", "C04", "C07", "C08", "C13", "C16", "C17", "C18"], "kind_free_text": "handle-world simulator over the safe API of Bytes/BytesMut with a simulator-owned allocator"},
            {"name": "E-buf", "path": "sim/buf", "serves_properties": ["C09", "C10", "C11", "C12", "C16", "C17"], "kind_free_text": "stream simulator: segmented Buf/BufMut nests against a flat model"},
            {"name": "E-sched", "path": "sim-sched", "serves_properties": ["C05", "C06"], "kind_free_text": "shuttle schedule search on the crate's real atomics via the loom seam + HB ledger"},
            {"name": "E-miri", "path": "sim-miri", "serves_properties": ["C06", "C05"], "kind_free_text": "Miri as seeded scheduler/weak-memory simulator"},
        ],
        "checks": checks,
        "not_applicable": na,
        "notes": "Deterministic simulation with fault injection; see DESIGN.md. Known findings: known_findings.json.",
    }
    with open(os.path.join(V, "MANIFEST.json"), "w") as f:
        json.dump(m, f, indent=1)
        f.write("\n")

if __name__ == "__main__":
    main()
