#!/usr/bin/env python3
"""tools/eval_seeded.py <property-id> <n> [check ids ...]

Confirms a sub-agent's seeded change in its scratch worktree (/tmp/wt-<id>/seeded/<n>):
suite green with the change, demonstration fails with it and passes without; then applies the
patch to /repo, runs the named checks (default: the property's own), undoes it, and stores
everything as /verif/seeded/<id>-<n>/ with meta.json."""
import json, os, shutil, subprocess, sys, time

prop, n = sys.argv[1], sys.argv[2]
checks = sys.argv[3:] or [prop]
scale = os.environ.get("SEED_SCALE", "0.5")
wt = os.environ.get("WT_PREFIX", "/tmp/wt-") + prop
sd = os.path.join(wt, "seeded", n)
env = dict(os.environ, CARGO_NET_OFFLINE="true", RUST_BACKTRACE="0")


def sh(cmd, cwd, timeout=3600, extra_env=None):
    e = dict(env)
    if extra_env:
        e.update(extra_env)
    r = subprocess.run(cmd, cwd=cwd, shell=isinstance(cmd, str), env=e, stdout=subprocess.PIPE, stderr=subprocess.STDOUT, text=True, timeout=timeout)
    return r.returncode, r.stdout


meta = {"property": prop, "n": int(n), "source": "independent sub-agent given only the property text and a scratch worktree", "ran": []}
readme = open(os.path.join(sd, "README.md")).read() if os.path.exists(os.path.join(sd, "README.md")) else ""
needs_miri = "miri test" in readme.lower() or "miri" in open(os.path.join(sd, "demo.rs")).read().lower()[:3000] and "cargo +nightly miri" in readme
import re
mm = re.search(r"NEEDS MIRI:\s*\**\s*(yes|no)", readme, re.I)
if mm:
    needs_miri = mm.group(1).lower() == "yes"
if os.environ.get("NEEDS_MIRI") is not None:
    needs_miri = os.environ["NEEDS_MIRI"] == "1"
sh("git checkout -- . && rm -f tests/seeded_demo.rs", wt)
rc, out = sh("git apply --check seeded/%s/patch.diff" % n, wt)
meta["patch_applies"] = rc == 0
if rc != 0:
    print("patch does not apply:", out[-500:])
shutil.copy(os.path.join(sd, "demo.rs"), os.path.join(wt, "tests", "seeded_demo.rs"))


def demo():
    if needs_miri:
        return sh("cargo +nightly miri test --offline --test seeded_demo 2>&1 | tail -40", wt, timeout=1800, extra_env={"MIRIFLAGS": os.environ.get("EVAL_MIRIFLAGS", "-Zmiri-many-seeds=0..16")})
    return sh("cargo test --offline --test seeded_demo 2>&1 | tail -40", wt, timeout=1800)


# without the change: demo passes
rc0, out0 = demo()
ok_without = ("test result: ok" in out0) and ("FAILED" not in out0) and "error: Undefined Behavior" not in out0
meta["demo_passes_without_change"] = ok_without
# with the change
sh("git apply seeded/%s/patch.diff" % n, wt)
os.remove(os.path.join(wt, "tests", "seeded_demo.rs"))
rc1, out1 = sh("cargo test --offline 2>&1 | grep -E '^test result|FAILED|error(\\[|:)' | sort | uniq -c", wt, timeout=3600)
suite_green = ("FAILED" not in out1) and ("error" not in out1) and ("test result: ok" in out1)
meta["suite_green_with_change"] = suite_green
shutil.copy(os.path.join(sd, "demo.rs"), os.path.join(wt, "tests", "seeded_demo.rs"))
rc2, out2 = demo()
fails_with = not (("test result: ok" in out2) and ("FAILED" not in out2) and "error: Undefined Behavior" not in out2)
meta["demo_fails_with_change"] = fails_with
meta["demo_needs_miri"] = bool(needs_miri)
sh("git checkout -- . && rm -f tests/seeded_demo.rs", wt)
meta["ran"].append("in %s: demo without change -> %s; cargo test --offline with change -> %s; demo with change -> %s" % (
    wt, "pass" if ok_without else "FAIL", "green" if suite_green else "NOT GREEN", "fails" if fails_with else "PASSES"))
print("confirm: applies=%s suite_green=%s demo_fails_with=%s demo_passes_without=%s miri=%s" % (meta["patch_applies"], suite_green, fails_with, ok_without, needs_miri))
if not suite_green:
    print(out1[-800:])
if not fails_with:
    print(out2[-600:])

# now the framework's checks against it
results = {}
if meta["patch_applies"]:
    rc, out = sh("git -C /repo apply %s" % os.path.join(sd, "patch.diff"), "/repo")
    try:
        for c in checks:
            t0 = time.time()
            rc, out = sh(["/verif/check", c, "--scale", scale], "/verif", timeout=7200)
            lines = [l for l in out.splitlines() if l.startswith(("VIOLATION", "  kind", "KNOWN", "  (")) or l.strip().startswith(("vrelease vs", "vdebug vs", "nostd", "xplat"))]
            results[c] = {"exit": rc, "seconds": round(time.time() - t0, 1), "lines": [l[:300] for l in lines[:4]]}
            print(c, "exit", rc, "|", " || ".join(l[:240] for l in lines[:3]))
    finally:
        sh("git -C /repo checkout -- .", "/repo")
meta["checks"] = results
meta["caught_by"] = [c for c, r in results.items() if r["exit"] == 1]
meta["ran"].append("git -C /repo apply patch.diff; " + "; ".join("./check %s --scale %s" % (c, scale) for c in checks) + "; git -C /repo checkout -- .")
dst = "/verif/seeded/%s-%s" % (prop, int(n) + int(os.environ.get("STORE_OFFSET", "0")))
meta["n"] = int(n) + int(os.environ.get("STORE_OFFSET", "0"))
os.makedirs(dst, exist_ok=True)
for f in ("patch.diff", "demo.rs", "README.md"):
    if os.path.exists(os.path.join(sd, f)):
        shutil.copy(os.path.join(sd, f), os.path.join(dst, f))
old = {}
if os.path.exists(os.path.join(dst, "meta.json")):
    old = json.load(open(os.path.join(dst, "meta.json")))
    for k in ("needs_to_manifest", "summary", "history"):
        if k in old:
            meta[k] = old[k]
json.dump(meta, open(os.path.join(dst, "meta.json"), "w"), indent=1)
print("stored", dst, "caught_by", meta["caught_by"])
