#!/usr/bin/env python3
"""compact view of engine batch output on stdin"""
import sys, json
n=0
for l in sys.stdin:
    if not l.startswith('{'):
        print('OUT', l[:200].rstrip()); continue
    j = json.loads(l)
    if j.get('type') == 'violation':
        n += 1
        if n <= 3:
            for v in j['violations'][:2]:
                print('VIOL run', j['run'], v['props'], v['kind'], v['detail'][:260])
            if 'prog' in j and n == 1: print('   prog', json.dumps(j['prog'])[:900])
    else:
        for k in ('nontrivial', 'state_sample', 'samples'):
            if k in j: j[k] = len(j[k])
        print(json.dumps(j)[:1500])
print('violating runs shown/total:', min(n,3), n)
