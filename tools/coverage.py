#!/usr/bin/env python3
"""tools/coverage.py [runs-per-profile]

Reach measurement, not a check: builds the simulators with source-based coverage
instrumentation (nightly, -C instrument-coverage) in /verif/target/cov, runs every
profile of E-seq / E-buf / E-sched for a small batch, and lists the lines of /repo/src
that no simulated run executed. The result is written to /verif/coverage/uncovered.txt and
/verif/coverage/summary.json; DESIGN.md section 15 discusses what is left uncovered and why.
"""
import collections, glob, json, os, re, shutil, subprocess, sys

ROOT = os.path.dirname(os.path.dirname(os.path.abspath(__file__)))
RUNS = int(sys.argv[1]) if len(sys.argv) > 1 else 3000
TOOLS = os.path.expanduser("~/.rustup/toolchains/nightly-x86_64-unknown-linux-gnu/lib/rustlib/x86_64-unknown-linux-gnu/bin")
TGT = os.path.join(ROOT, "target", "cov")
RAW = os.path.join(TGT, "raw")
env = dict(os.environ, CARGO_NET_OFFLINE="true", RUSTFLAGS="-C instrument-coverage")


def sh(cmd, cwd, e=None, quiet=True):
    r = subprocess.run(cmd, cwd=cwd, env=e or env, stdout=subprocess.PIPE, stderr=subprocess.STDOUT, text=True)
    if r.returncode != 0 and not quiet:
        print(r.stdout[-2000:])
    return r.returncode, r.stdout


shutil.rmtree(RAW, ignore_errors=True)
os.makedirs(RAW)
rc, out = sh(["cargo", "+nightly", "build", "--offline", "--profile", "vdebug", "--target-dir", TGT, "-p", "seq", "-p", "buf"], os.path.join(ROOT, "sim"), quiet=False)
assert rc == 0, "instrumented build of sim failed"
rc, out = sh(["cargo", "+nightly", "build", "--offline", "--profile", "vrelease", "--target-dir", os.path.join(TGT, "sched"), "-p", "sched"], os.path.join(ROOT, "sim-sched"), quiet=False)
have_sched = rc == 0
objs = [os.path.join(TGT, "vdebug", "seq"), os.path.join(TGT, "vdebug", "buf")]
if have_sched:
    objs.append(os.path.join(TGT, "sched", "vrelease", "sched"))


def run(binp, args, tag):
    e = dict(os.environ, LLVM_PROFILE_FILE=os.path.join(RAW, tag + "-%p.profraw"))
    r = subprocess.run([binp] + args, env=e, stdout=subprocess.DEVNULL, stderr=subprocess.DEVNULL)
    return r.returncode


for p in ("std", "mut", "fault"):
    run(objs[0], ["batch", "--seed", "1", "--tag", "1", "--from", "0", "--to", str(RUNS), "--profile", p, "--steps", "30"], "seq-" + p)
run(objs[0], ["batch", "--seed", "1", "--tag", "1", "--from", "0", "--to", str(max(20, RUNS // 50)), "--profile", "recycle", "--steps", "30"], "seq-recycle")
for p in ("laws", "typed", "adapters", "write", "byz"):
    run(objs[1], ["batch", "--seed", "1", "--tag", "1", "--from", "0", "--to", str(RUNS), "--profile", p, "--steps", "30"], "buf-" + p)
if have_sched:
    run(objs[2], ["batch", "--seed", "1", "--tag", "1", "--from", "0", "--to", str(RUNS)], "sched")

prof = os.path.join(TGT, "all.profdata")
subprocess.check_call([os.path.join(TOOLS, "llvm-profdata"), "merge", "-sparse"] + glob.glob(os.path.join(RAW, "*.profraw")) + ["-o", prof])


def num(s):
    m = {"k": 1e3, "M": 1e6, "G": 1e9}
    return int(float(s[:-1]) * m[s[-1]]) if s[-1] in m else int(s)


da = collections.defaultdict(dict)
for o in objs:
    txt = subprocess.run([os.path.join(TOOLS, "llvm-cov"), "show", "-instr-profile=" + prof, "-object", o], stdout=subprocess.PIPE, stderr=subprocess.DEVNULL, text=True).stdout
    cur = None
    for l in txt.splitlines():
        if l.startswith("/") and l.rstrip().endswith(":"):
            cur = l.rstrip()[:-1]
            continue
        m = re.match(r"^ +(\d+)\| *([0-9.kMG]+)?\|", l)
        if m and cur and "/src/" in cur and os.path.realpath(cur).startswith("/repo/src") and m.group(2):
            da[cur][int(m.group(1))] = max(da[cur].get(int(m.group(1)), 0), num(m.group(2)))

os.makedirs(os.path.join(ROOT, "coverage"), exist_ok=True)
summary = {"runs_per_profile": RUNS, "engines": ["seq", "buf"] + (["sched"] if have_sched else []), "files": {}}
with open(os.path.join(ROOT, "coverage", "uncovered.txt"), "w") as f:
    for fn in sorted(da):
        src = open(fn).read().split("\n")
        unc = sorted(n for n, c in da[fn].items() if c == 0)
        summary["files"][fn] = {"instrumented_lines": len(da[fn]), "never_executed": len(unc)}
        f.write("===== %s: %d of %d instrumented lines never executed\n" % (fn, len(unc), len(da[fn])))
        i = 0
        while i < len(unc):
            j = i
            while j + 1 < len(unc) and unc[j + 1] <= unc[j] + 1:
                j += 1
            f.write("  %d-%d: %s\n" % (unc[i], unc[j], src[unc[i] - 1].strip()[:110]))
            i = j + 1
json.dump(summary, open(os.path.join(ROOT, "coverage", "summary.json"), "w"), indent=1)
tot = sum(v["instrumented_lines"] for v in summary["files"].values())
miss = sum(v["never_executed"] for v in summary["files"].values())
print("lines of /repo/src instrumented: %d, never executed by any simulated run: %d (%.1f%%)" % (tot, miss, 100.0 * miss / max(tot, 1)))
shutil.rmtree(RAW, ignore_errors=True)
