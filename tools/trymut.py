#!/usr/bin/env python3
"""tools/trymut.py FILE 'old' 'new' -- check ids...   : apply a textual mutant to /repo, run checks, revert."""
import sys, subprocess, os
f, old, new = sys.argv[1:4]
ids = sys.argv[4:]
p = os.path.join('/repo', f)
s = open(p).read()
assert s.count(old) >= 1, "pattern not found"
open(p, 'w').write(s.replace(old, new, 1))
try:
    for i in ids:
        extra = []
        if ':' in i:
            i, sc = i.split(':'); extra = ['--scale', sc]
        r = subprocess.run(['/verif/check', i] + extra, stdout=subprocess.PIPE, stderr=subprocess.PIPE, text=True)
        lines = [l for l in r.stdout.splitlines() if l.startswith(('VIOLATION', '  kind', 'KNOWN', '  ('))]
        print(i, 'exit', r.returncode, '|', ' || '.join(l[:260] for l in lines[:3]))
        if r.returncode == 2:
            print(r.stderr[-1500:])
finally:
    subprocess.run(['git', '-C', '/repo', 'checkout', '--', f])
