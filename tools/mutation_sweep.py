#!/usr/bin/env python3
"""tools/mutation_sweep.py <repo> <n> [seed]

Sampled operator-mutation sweep (sensitivity measurement, not a check): picks n mutation sites
in the non-test, non-comment code of the crate (comparison operators tightened / loosened,
+/- swapped, `+ 1` / `- 1` dropped, min/max swapped, && / || swapped, checked_ -> wrapping_
arithmetic), applies one at a time to <repo>, builds, and runs the checks that own the file
(scale 0.1). A mutant no check reports is then run against the crate's own test suite:
  killed-by-check     a check reported it (what the framework is for)
  killed-by-tests     silent in the checks, but the pinned suite fails -> outside the stated scope
  does-not-build      discarded
  SURVIVED            silent everywhere: either an equivalent mutant or a blind spot; listed
                      for reading in coverage/mutation_sweep.json
"""
import json, os, random, re, subprocess, sys

repo, n = sys.argv[1], int(sys.argv[2])
seed = int(sys.argv[3]) if len(sys.argv) > 3 else 1
VERIF = os.path.dirname(os.path.dirname(os.path.abspath(__file__)))
FILES = {
    "src/bytes.rs": "C01 C02 C03 C07 C08 C13 C05",
    "src/bytes_mut.rs": "C01 C02 C03 C04 C07 C08 C13 C18 C05",
    "src/buf/take.rs": "C09 C12 C10",
    "src/buf/chain.rs": "C09 C12 C11",
    "src/buf/limit.rs": "C11 C12",
    "src/buf/buf_impl.rs": "C09 C10 C12",
    "src/buf/buf_mut.rs": "C11 C12 C17",
    "src/buf/uninit_slice.rs": "C11",
    "src/buf/iter.rs": "C09 C01",
    "src/buf/reader.rs": "C12",
    "src/buf/writer.rs": "C12",
    "src/buf/vec_deque.rs": "C09 C10",
    "src/lib.rs": "C09 C10 C11",
}
OPS = [
    (r"(?<![<>=!-])<=(?!=)", "<"), (r"(?<![<>=!-])<(?![<=])", "<="), (r"(?<![<>=!-])>=(?!=)", ">"), (r"(?<![<>=!-])>(?![>=])", ">="),
    (r"==", "!="), (r"!=", "=="), (r" \+ 1\b", " + 0"), (r" - 1\b", " - 0"), (r" \+ (?=[a-z_(])", " - "), (r" - (?=[a-z_(])", " + "),
    (r"\bmin\(", "max("), (r"\bmax\(", "min("), (r" && ", " || "), (r" \|\| ", " && "),
    (r"checked_add", "wrapping_add"), (r"checked_sub", "wrapping_sub"), (r"saturating_sub", "wrapping_sub"), (r"saturating_add", "wrapping_add"),
]


def code_lines(path):
    """(line number, text) of lines that are code: not comments, not attributes, not inside #[cfg(test)] / macro docs."""
    out, in_test = [], False
    for i, l in enumerate(open(path).read().split("\n"), 1):
        st = l.strip()
        if st.startswith("#[cfg(test)]") or st.startswith("#[cfg(all(test"):
            in_test = True
        if in_test or not st or st.startswith(("//", "#[", "#![", "*", "use ", "pub use ", "extern ")):
            continue
        if "debug_assert" in st or "assert!(" in st and "internal" in st:
            continue
        code = l.split("//")[0]
        # nothing inside string literals (panic messages): blank them, keeping the columns
        code = re.sub(r'"(?:[^"\\]|\\.)*"', lambda m: '"' + " " * (len(m.group(0)) - 2) + '"', code)
        # generics / lifetimes / arrows / turbofish make < > ambiguous: leave such lines to the other operators
        out.append((i, code))
    return out


rng = random.Random(seed)
sites = []
for f in FILES:
    p = os.path.join(repo, f)
    for ln, code in code_lines(p):
        for pat, rep in OPS:
            for m in re.finditer(pat, code):
                if pat.startswith("(?<![<>=!-])") and re.search(r"->|=>|<[A-Za-z_&'\[(]|::<|[A-Za-z_)\]]>|fn |impl|where|&'", code):
                    continue
                sites.append((f, ln, m.start(), m.end(), rep))
rng.shuffle(sites)
res = []
done = 0
for f, ln, a, b, rep in sites:
    if done >= n:
        break
    p = os.path.join(repo, f)
    lines = open(p).read().split("\n")
    orig = lines[ln - 1]
    lines[ln - 1] = orig[:a] + rep + orig[b:]
    open(p, "w").write("\n".join(lines))
    rec = {"file": f, "line": ln, "from": orig.strip()[:140], "to": lines[ln - 1].strip()[:140]}
    try:
        r = subprocess.run(["cargo", "build", "--offline", "-q"], cwd=repo, stdout=subprocess.PIPE, stderr=subprocess.STDOUT, text=True)
        if r.returncode != 0:
            rec["result"] = "does-not-build"
            continue
        done += 1
        killed = None
        for c in FILES[f].split():
            r = subprocess.run([os.path.join(VERIF, "check"), c, "--scale", "0.1"], cwd=VERIF, stdout=subprocess.PIPE, stderr=subprocess.PIPE, text=True)
            if r.returncode == 1:
                kind = [l.strip() for l in r.stdout.splitlines() if l.strip().startswith("kind=")][:1]
                killed = "%s %s" % (c, kind[0][:160] if kind else "")
                break
            if r.returncode == 2:
                killed = "HARNESS-ERROR in %s: %s" % (c, r.stderr.strip()[-200:])
                break
        if killed:
            rec["result"] = "killed-by-check" if not killed.startswith("HARNESS") else "harness-error"
            rec["by"] = killed
        else:
            t = subprocess.run("cargo test --offline 2>&1 | grep -E '^test result|FAILED|^error' | sort | uniq -c", cwd=repo, shell=True, stdout=subprocess.PIPE, text=True)
            rec["result"] = "killed-by-tests" if ("FAILED" in t.stdout or "error" in t.stdout or "test result: ok" not in t.stdout) else "SURVIVED"
    finally:
        subprocess.run(["git", "-C", repo, "checkout", "--", f])
        if "result" in rec and rec["result"] != "does-not-build":
            res.append(rec)
            print("%-18s %s:%d  %s  =>  %s   %s" % (rec["result"], f, ln, rec["from"][:70], rec["to"][:70], rec.get("by", "")[:140]), flush=True)
os.makedirs(os.path.join(VERIF, "coverage"), exist_ok=True)
json.dump(res, open(os.path.join(VERIF, "coverage", "mutation_sweep.json"), "w"), indent=1)
from collections import Counter
print(Counter(r["result"] for r in res))
