#!/usr/bin/env python3
"""Determinism proof (DESIGN §9.1): every engine is run twice over the same seed range — once as
one process, once split over several worker processes with different chunk boundaries — and the
per-run event digests (E-seq: per-step outcome digests; E-buf: result digest; E-sched: program
hash + full decision-sequence hash + atomic-operation count) must be identical pairwise.
Usage: tools/determinism.py [runs-per-engine]   (default 2000)"""
import json, os, subprocess, sys, tempfile
sys.path.insert(0, os.path.dirname(os.path.dirname(os.path.abspath(__file__))))
from vlib import common as C

N = int(sys.argv[1]) if len(sys.argv) > 1 else 2000
SEED = 424242


def emit(engine, variant, profile, a, b, path, extra=()):
    cmd = [C.binpath(variant, engine), "batch", "--seed", str(SEED), "--tag", "9", "--from", str(a), "--to", str(b), "--emit", path, "--max-viol", "1000000"]
    if engine != "sched":
        cmd += ["--profile", profile, "--steps", "40"]
    cmd += list(extra)
    subprocess.run(cmd, env=C.ENV, stdout=subprocess.DEVNULL, stderr=subprocess.DEVNULL, check=False)
    out = {}
    with open(path) as f:
        for line in f:
            j = json.loads(line)
            r = j.pop("run")
            j.pop("seed", None)
            out[r] = json.dumps(j, sort_keys=True)
    os.unlink(path)
    return out


def main():
    C.build("vdebug", ("seq", "buf"))
    C.build("vrelease", ("seq", "buf"))
    C.build_sched("vrelease")
    tmp = tempfile.mkdtemp(prefix="det-", dir=C.JOURNALS if os.path.isdir(C.JOURNALS) else None)
    bad = 0
    total = 0
    cases = [("seq", "vdebug", "std"), ("seq", "vrelease", "fault"), ("seq", "vdebug", "mut"),
             ("buf", "vdebug", "laws"), ("buf", "vrelease", "typed"), ("buf", "vdebug", "write"), ("buf", "vrelease", "adapters"), ("buf", "vdebug", "byz"),
             ("sched", "vrelease", "sched")]
    for engine, variant, profile in cases:
        one = emit(engine, variant, profile, 0, N, os.path.join(tmp, "a.jsonl"))
        # second time: 7 processes with uneven chunk boundaries, run in reverse order
        bounds = [0] + sorted(set((N * k * k) // 49 for k in range(1, 7))) + [N]
        two = {}
        for k in reversed(range(len(bounds) - 1)):
            if bounds[k] < bounds[k + 1]:
                two.update(emit(engine, variant, profile, bounds[k], bounds[k + 1], os.path.join(tmp, "b%d.jsonl" % k)))
        diff = [r for r in one if one[r] != two.get(r)]
        total += len(one)
        bad += len(diff)
        print("%-5s %-8s %-8s runs=%d identical=%d differing=%d" % (engine, variant, profile, len(one), len(one) - len(diff), len(diff)))
        if diff:
            print("   first differing run:", diff[0])
    os.rmdir(tmp)
    print("DETERMINISM: %d runs compared, %d differ" % (total, bad))
    return 1 if bad else 0


if __name__ == "__main__":
    sys.exit(main())
