//! Platform layer for std threads (E-miri): Miri itself is the scheduler, the
//! weak-memory model and the race detector, so the harness adds no synchronisation
//! of its own beyond spawn/join (no registry, no probes, no ghost accesses).

pub const BOOKKEEPING: bool = false;

pub fn track<R>(f: impl FnOnce() -> R) -> R {
    f()
}
pub fn untracked<R>(f: impl FnOnce() -> R) -> R {
    f()
}
pub fn note_access(_ptr: usize, _len: usize, _write: bool, _what: &str) {}

pub struct JoinHandle<T>(std::thread::JoinHandle<T>);

pub fn spawn<F, T>(f: F) -> JoinHandle<T>
where
    F: FnOnce() -> T + Send + 'static,
    T: Send + 'static,
{
    JoinHandle(std::thread::spawn(f))
}
pub fn join<T>(h: JoinHandle<T>) -> T {
    h.0.join().expect("task panicked")
}
