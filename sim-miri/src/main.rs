//! E-miri: the concurrent programs of E-sched on std threads, to be run under
//! `cargo +nightly miri run` where Miri's seeded scheduler, address allocator and
//! weak-memory emulation decide the execution and its C11 race detector is the oracle.
//!
//!   miriprog gen <seed> <tag> <index>     program generated from the seed (as E-sched does)
//!   miriprog file <path>                  program from a replay file (needs -Zmiri-disable-isolation)
//!   miriprog json '<program json>'

mod plat;
#[path = "../../sim-sched/sched/src/prog.rs"]
mod prog;

use rt::{mix, Rng, J};

fn main() {
    let args: Vec<String> = std::env::args().collect();
    let program = match args.get(1).map(|s| s.as_str()) {
        Some("gen") => {
            let seed: u64 = args[2].parse().unwrap();
            let tag: u64 = args[3].parse().unwrap();
            let idx: u64 = args[4].parse().unwrap();
            // several programs per process amortise the interpreter's start-up
            let count: u64 = args.iter().position(|a| a == "--count").and_then(|i| args.get(i + 1)).and_then(|s| s.parse().ok()).unwrap_or(1);
            for k in 0..count.saturating_sub(1) {
                let p = prog::gen_program_f(&mut Rng::new(mix(&[seed, tag, idx * count + k])), true);
                run_one(&p, idx * count + k);
            }
            prog::gen_program_f(&mut Rng::new(mix(&[seed, tag, idx * count + count - 1])), true)
        }
        Some("file") => {
            let txt = std::fs::read_to_string(&args[2]).expect("read");
            let rec = J::parse(&txt).expect("parse");
            rec.get("prog").cloned().unwrap_or(rec)
        }
        Some("json") => J::parse(&args[2]).expect("parse"),
        _ => {
            eprintln!("usage: miriprog gen <seed> <tag> <index> | file <path> | json <program>");
            std::process::exit(2);
        }
    };
    if args.iter().any(|a| a == "--print") {
        println!("{}", program.dump());
    }
    run_one(&program, u64::MAX);
}

fn run_one(program: &J, k: u64) {
    println!("PROGRAM {}", k);
    prog::run_program(program);
    let v = prog::VIOLATIONS.lock().unwrap();
    if !v.is_empty() {
        for (props, kind, detail) in v.iter() {
            println!("MODEL-VIOLATION props={:?} kind={} {}", props, kind, detail);
        }
        std::process::exit(1);
    }
}
