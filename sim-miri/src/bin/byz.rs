//! E-miri, byzantine subset (C17): the lying-Buf / lying-iterator / lying-owner cases of
//! E-buf, interpreted by Miri so that an out-of-bounds *read* (silent for a native
//! allocator oracle), an invalid free or a leak in the crate is reported as UB / leak.
//!
//!   byz <seed> <tag> <from> <to>

#[path = "../../../sim/buf/src/byz.rs"]
mod byz;
#[path = "../../../sim/buf/src/gets.rs"]
mod gets;

use rt::journal::Journal;
use rt::{mix, Rng, Violation, J};

pub struct Outcome {
    pub viol: Vec<Violation>,
    pub ops: Vec<J>,
    pub steps: usize,
    pub panics: u64,
    pub straddles: u64,
    pub shortfalls: u64,
    pub probes: std::collections::BTreeMap<&'static str, u64>,
    pub digest: u64,
}

fn main() {
    std::panic::set_hook(Box::new(|_| {}));
    let a: Vec<String> = std::env::args().collect();
    let (seed, tag, from, to): (u64, u64, u64, u64) = (a[1].parse().unwrap(), a[2].parse().unwrap(), a[3].parse().unwrap(), a[4].parse().unwrap());
    let mut journal = Journal::none();
    let mut fired = 0u64;
    for i in from..to {
        let mut rng = Rng::new(mix(&[seed, tag, i]));
        let case = byz::gen_case(&mut rng, i);
        println!("CASE {} {}", i, case.str("consumer").unwrap_or(""));
        let r = byz::run(&case, None, &mut rng, 1, &mut journal);
        fired += r.shortfalls;
        if !r.viol.is_empty() {
            println!("MODEL-VIOLATION props=[C17] kind={} {}", r.viol[0].kind, r.viol[0].detail);
            std::process::exit(1);
        }
    }
    println!("DONE fired={}", fired);
}
